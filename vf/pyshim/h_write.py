"""C07 / C01 / C18: the options given to writer.write reach the function that does the work, under the parameter they
were given for.  The real `write` runs with its collaborators (ParquetFile, write_simple, write_multi, overwrite,
make_metadata, get_fs) replaced by recorders that bind the call to the REAL collaborator's signature
(inspect.signature(...).bind), so a positional/keyword mix-up is seen as the wrong value under a name."""
import inspect
from typing import List

from vf.pyshim.kit import REPLAY

import fastparquet.api as api
import fastparquet.writer as writer
from fastparquet import parquet_thrift

COMP = [None, "GZIP", "SNAPPY", {"x": "ZSTD"}]
STATS = ["auto", True, False, ["x"]]
SCHEMES = ["simple", "hive", "drill"]


def _bound(real, *args, **kwargs):
    ba = inspect.signature(real).bind(*args, **kwargs)
    ba.apply_defaults()
    return dict(ba.arguments)


class _PF:
    """stands for ParquetFile(filename, open_with=...): an existing dataset with a scheme and partition columns"""

    def __init__(self, scheme, cats, calls):
        self.file_scheme, self.cats, self.calls = scheme, cats, calls

    def _get_index(self):
        return []

    def write_row_groups(self, *args, **kwargs):
        self.calls.append(("write_row_groups", _bound(api.ParquetFile.write_row_groups, self, *args, **kwargs)))


class _ColIndex(list):
    dtype = "object"


class _Frame:
    attrs = {}

    def __init__(self, cols):
        self.columns = _ColIndex(cols)


def _pick(v, lo, hi):
    for k in range(lo, hi + 1):
        if v == k:
            return k
    raise ValueError(v)


APPEND_TRUE = [True, 1, "numpy.bool_"]      # truthy values a caller may pass (np.bool_: result of .any(), comparisons)
APPEND_KIND = [0]


def _append_value():
    import numpy as np
    v = APPEND_TRUE[APPEND_KIND[0]]
    return np.bool_(True) if v == "numpy.bool_" else v


def h_write_append_truthy(ia: int, ic: int, ist: int, have: int) -> bool:
    """
    pre: 0 <= ia <= 2 and 0 <= ic <= 3 and 0 <= ist <= 3 and 0 <= have <= 1
    post: __return__
    """
    # append given as any true value (documented: bool or 'overwrite'): the existing dataset is appended to, never
    # re-created
    APPEND_KIND[0] = _pick(ia, 0, 2)
    try:
        return _h_write_append_options(ic, ist, 5, have, have, False, True)
    finally:
        APPEND_KIND[0] = 0


def replay_h_write_append_truthy(ia, ic, ist, have):
    APPEND_KIND[0] = ia
    try:
        return replay_h_write_append_options(ic, ist, 5, have, have, False, True)
    finally:
        APPEND_KIND[0] = 0


def h_write_append_options(ic: int, ist: int, rgo: int, req: int, have: int, part: bool, same_part: bool) -> bool:
    """
    pre: 0 <= ic <= 3 and 0 <= ist <= 3 and 1 <= rgo <= 1 << 40 and 0 <= req <= 1 and 0 <= have <= 1
    post: __return__
    """
    return _h_write_append_options(ic, ist, rgo, req, have, part, same_part)


def _h_write_append_options(ic, ist, rgo, req, have, part, same_part):
    # (simple and hive datasets; drill appends are h_append_scheme's subject)
    # write(..., append=True) on an existing dataset: scheme / partition mismatches are refused before anything is
    # written; otherwise ParquetFile.write_row_groups receives the caller's row_group_offsets, compression, stats,
    # open_with and mkdirs under those names, with part renaming off and the summary rewritten
    ic, ist, req, have = _pick(ic, 0, 3), _pick(ist, 0, 3), _pick(req, 0, 1), _pick(have, 0, 1)
    comp, stats, scheme, existing = COMP[ic], STATS[ist], SCHEMES[req], ["simple", "hive", "drill"][have]
    cats = {"k": [1]} if part else {}
    partition_on = (["k"] if part else []) if same_part else ["other"]
    calls = []
    ow, mk = (lambda p, m="rb": None), (lambda p: None)
    saved = (writer.ParquetFile, writer.get_fs)
    writer.ParquetFile = lambda fn, open_with=None: _PF(existing, cats, calls)
    writer.get_fs = lambda fn, open_with, mkdirs: (None, fn, open_with, mkdirs)
    raised = False
    try:
        try:
            writer.write("d", _Frame(["x"]), row_group_offsets=rgo, compression=comp, file_scheme=scheme, open_with=ow,
                         mkdirs=mk, partition_on=partition_on, append=_append_value(), stats=stats)
        except ValueError:
            raised = True
    finally:
        writer.ParquetFile, writer.get_fs = saved
    if scheme == "simple":
        must_refuse = existing != "simple"
    else:
        must_refuse = existing == "simple" or existing == "drill" or tuple(partition_on) != tuple(cats)
    if must_refuse:
        return raised and calls == []
    if raised or len(calls) != 1:
        return False
    a = calls[0][1]
    return (a["row_group_offsets"] == rgo and a["compression"] is comp and a["stats"] is stats and
            a["open_with"] is ow and a["mkdirs"] is mk and not a["sort_pnames"] and a["sort_key"] is None and
            bool(a["write_fmd"]))


def replay_h_write_append_options(ic, ist, rgo, req, have, part, same_part):
    """real files: append with the witness's codec / statistics setting, then check the new chunks"""
    import os, shutil, tempfile
    import pandas as pd
    import fastparquet
    comp, stats, scheme, existing = COMP[ic], STATS[ist], SCHEMES[req], ["simple", "hive", "drill"][have]
    if existing == "drill" or scheme == "drill":
        return None, "no concrete driver for drill datasets"
    d = tempfile.mkdtemp(prefix="c07-")
    try:
        dn = os.path.join(d, "ds")
        df = pd.DataFrame({"x": [1, 2, 3, 4], "k": [1, 1, 2, 2]})
        kw = dict(partition_on=["k"]) if (part and existing != "simple") else {}
        fastparquet.write(dn, df, file_scheme=existing, **kw)
        before = sorted(os.listdir(dn)) if os.path.isdir(dn) else None
        pon = (kw.get("partition_on", []) if same_part else ["other"])
        for rep in range(2):
            try:
                fastparquet.write(dn, df, file_scheme=scheme, append=_append_value(), compression=comp, stats=stats,
                                  partition_on=pon if scheme != "simple" else [], row_group_offsets=[0, 2])
            except ValueError:
                return False, "refused"
        pf = fastparquet.ParquetFile(dn)
        out = pf.to_pandas()
        if len(out) != 12 or sorted(out["x"]) != sorted([1, 2, 3, 4] * 3):
            return True, "after two appends (compression=%r) the dataset holds %d rows, x=%r" % (
                comp, len(out), sorted(out["x"]))
        want = {None: "UNCOMPRESSED", "GZIP": "GZIP", "SNAPPY": "SNAPPY"}.get(comp if not isinstance(comp, dict) else None)
        codecs = {parquet_thrift.CompressionCodec._VALUES_TO_NAMES[c.meta_data.codec] for rg in pf.row_groups[-2:]
                  for c in rg.columns if c.meta_data.path_in_schema == ["x"]}
        if isinstance(comp, dict):
            want = "ZSTD"
        if codecs != {want}:
            return True, "appended chunks of column x use codec %r, requested %r" % (sorted(codecs), comp)
        return False, "options honoured"
    finally:
        shutil.rmtree(d, ignore_errors=True)


WITH_ATTRS = [False]


def h_write_custom_metadata(ic: int, req: int, with_attrs: bool, with_custom: bool) -> bool:
    """
    pre: 0 <= ic <= 3 and 0 <= req <= 2
    post: __return__
    """
    # custom_metadata and the frame's .attrs, each present or not: every user key reaches the footer, attrs travel
    # under PANDAS_ATTRS beside them
    WITH_ATTRS[0] = (with_attrs, with_custom)
    try:
        return _h_write_new_options(ic, 0, 7, req, False, False)
    finally:
        WITH_ATTRS[0] = False


def replay_h_write_custom_metadata(ic, req, with_attrs, with_custom):
    import os, shutil, tempfile
    import pandas as pd
    import fastparquet
    d = tempfile.mkdtemp(prefix="c16-")
    try:
        dn = os.path.join(d, "ds")
        df = pd.DataFrame({"x": [1, 2, 3, 4]})
        if with_attrs:
            df.attrs = {"unit": "m"}
        fastparquet.write(dn, df, file_scheme=SCHEMES[req], compression=COMP[ic],
                          custom_metadata={"a": "b"} if with_custom else None)
        pf = fastparquet.ParquetFile(dn)
        kv = pf.key_value_metadata
        if with_custom and kv.get("a") != "b":
            return True, "custom_metadata={'a': 'b'}%s: the footer holds keys %r" % (
                " on a frame with attrs" if with_attrs else "", sorted(kv))
        if with_attrs and pf.to_pandas().attrs != {"unit": "m"}:
            return True, "frame attrs %r come back as %r" % ({"unit": "m"}, pf.to_pandas().attrs)
        return False, "metadata kept"
    finally:
        shutil.rmtree(d, ignore_errors=True)


def h_write_new_options(ic: int, ist: int, rgo: int, req: int, part: bool, times96: bool) -> bool:
    """
    pre: 0 <= ic <= 3 and 0 <= ist <= 3 and 1 <= rgo <= 1 << 40 and 0 <= req <= 2
    post: __return__
    """
    return _h_write_new_options(ic, ist, rgo, req, part, times96)


def _h_write_new_options(ic, ist, rgo, req, part, times96):
    # write(..., append=False): the options reach write_simple / write_multi and make_metadata under their own names
    ic, ist, req = _pick(ic, 0, 3), _pick(ist, 0, 3), _pick(req, 0, 2)
    comp, stats, scheme = COMP[ic], STATS[ist], SCHEMES[req]
    partition_on = ["k"] if part else []
    calls = []
    ow, mk = (lambda p, m="rb": None), (lambda p: None)
    fmd = parquet_thrift.FileMetaData(version=1, schema=[], row_groups=[], num_rows=0, key_value_metadata=[])
    real = (writer.write_simple, writer.write_multi, writer.make_metadata)

    def make_metadata(*a, **k):
        calls.append(("make_metadata", _bound(real[2], *a, **k)))
        return fmd
    saved = (writer.write_simple, writer.write_multi, writer.make_metadata, writer.get_fs, writer.check_column_names,
             writer.reset_row_idx)
    writer.write_simple = lambda *a, **k: calls.append(("write_simple", _bound(real[0], *a, **k)))
    writer.write_multi = lambda *a, **k: calls.append(("write_multi", _bound(real[1], *a, **k)))
    writer.make_metadata = make_metadata
    writer.get_fs = lambda fn, open_with, mkdirs: (None, fn, open_with, mkdirs)
    writer.check_column_names = lambda *a, **k: None
    data = _Frame(["x", "k"])
    data.index = None
    with_attrs, with_custom = WITH_ATTRS[0] if WITH_ATTRS[0] else (False, True)
    if with_attrs:
        data.attrs = {"unit": "m"}
    try:
        writer.write("d", data, row_group_offsets=rgo, compression=comp, file_scheme=scheme, open_with=ow, mkdirs=mk,
                     partition_on=partition_on, append=False, stats=stats, write_index=False,
                     times="int96" if times96 else "int64", has_nulls=False,
                     custom_metadata={"a": "b"} if with_custom else None)
    finally:
        (writer.write_simple, writer.write_multi, writer.make_metadata, writer.get_fs, writer.check_column_names,
         writer.reset_row_idx) = saved
    names = [c[0] for c in calls]
    if names != ["make_metadata", "write_simple" if scheme == "simple" else "write_multi"]:
        return False
    m, w = calls[0][1], calls[1][1]
    if not (m["times"] == ("int96" if times96 else "int64") and m["has_nulls"] is False and
            list(m["partition_cols"]) == partition_on and list(m["index_cols"]) == [] and
            list(m["ignore_columns"]) == (partition_on if scheme != "simple" else [])):
        return False
    kv = [(k.key, k.value) for k in (fmd.key_value_metadata or [])]
    if with_custom and ("a", "b") not in kv:
        return False
    if with_attrs != (("PANDAS_ATTRS", '{"unit": "m"}') in kv):
        return False
    ok = (w["row_group_offsets"] == rgo and w["compression"] is comp and w["stats"] is stats and
          w["open_with"] is ow and w["append"] is False and w["fmd"] is fmd and w["data"] is data)
    if scheme != "simple":
        ok = ok and w["file_scheme"] == scheme and list(w["partition_on"]) == partition_on and w["mkdirs"] is mk and \
            w["write_fmd"] is True and w["dn"] == "d"
    else:
        ok = ok and w["fn"] == "d"
    return ok


def replay_h_write_new_options(ic, ist, rgo, req, part, times96):
    import os, shutil, tempfile
    import pandas as pd
    import fastparquet
    comp, stats, scheme = COMP[ic], STATS[ist], SCHEMES[req]
    d = tempfile.mkdtemp(prefix="c01-")
    try:
        dn = os.path.join(d, "ds")
        df = pd.DataFrame({"x": [1, 2, 3, 4], "k": [1, 1, 2, 2], "t": pd.to_datetime(["2020-01-01"] * 4)})
        fastparquet.write(dn, df, file_scheme=scheme, compression=comp, stats=stats,
                          partition_on=["k"] if (part and scheme != "simple") else [], row_group_offsets=[0, 2],
                          times="int96" if times96 else "int64", write_index=False, custom_metadata={"a": "b"})
        pf = fastparquet.ParquetFile(dn)
        out = pf.to_pandas()
        if sorted(out["x"]) != [1, 2, 3, 4] or pf.key_value_metadata.get("a") != "b":
            return True, "written dataset reads back x=%r, custom metadata %r" % (sorted(out["x"]),
                                                                                   pf.key_value_metadata.get("a"))
        tcol = [c for c in pf.row_groups[0].columns if c.meta_data.path_in_schema == ["t"]][0]
        is96 = tcol.meta_data.type == parquet_thrift.Type.INT96
        if is96 != bool(times96):
            return True, "times=%r but the timestamp column is stored as %s" % (
                "int96" if times96 else "int64", parquet_thrift.Type._VALUES_TO_NAMES[tcol.meta_data.type])
        xcol = [c for c in pf.row_groups[0].columns if c.meta_data.path_in_schema == ["x"]][0]
        want = "ZSTD" if isinstance(comp, dict) else (comp or "UNCOMPRESSED")
        got = parquet_thrift.CompressionCodec._VALUES_TO_NAMES[xcol.meta_data.codec]
        if got != want:
            return True, "compression=%r but column x is stored with codec %s" % (comp, got)
        has_stats = xcol.meta_data.statistics is not None and xcol.meta_data.statistics.max is not None
        if has_stats != (stats is not False):
            return True, "stats=%r but column x %s statistics" % (stats, "has" if has_stats else "has no")
        return False, "options honoured"
    finally:
        shutil.rmtree(d, ignore_errors=True)
