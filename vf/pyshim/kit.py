"""Contract shims used by the E2 harnesses (trusted environment; each is listed in the evidence).

The harness modules import the *staged copy of /repo's working tree* (VERIF_STAGE) so that the real
function objects are what CrossHair executes.
"""
import bisect
import os
import sys

STAGE = os.environ.get("VERIF_STAGE")
if STAGE and STAGE not in sys.path:
    sys.path.insert(0, STAGE)

REPLAY = bool(os.environ.get("VERIF_REPLAY"))

OPS = ["==", "=", "!=", "<", "<=", ">", ">=", "in", "not in"]


def row_pred(op, x, val):
    """documented row-level meaning of one filter clause on a non-null cell x"""
    if op in ("==", "="):
        return x == val
    if op == "!=":
        return x != val
    if op == "<":
        return x < val
    if op == "<=":
        return x <= val
    if op == ">":
        return x > val
    if op == ">=":
        return x >= val
    if op == "in":
        return x in val
    if op == "not in":
        return x not in val
    raise ValueError(op)


class NPShim:
    """the handful of numpy names the filter functions touch, with their documented contracts"""

    class ndarray:      # isinstance(v, np.ndarray) is False for plain values
        pass

    @staticmethod
    def searchsorted(a, v, side="left"):
        return bisect.bisect_left(a, v) if side == "left" else bisect.bisect_right(a, v)


class Token:
    """stands for the PLAIN-encoded bytes of a statistics bound; read_plain/convert stubs give .value back"""

    def __init__(self, value):
        self.value = value

    def __bool__(self):
        return True


class SE:
    def __init__(self, converted_type=None, logicalType=None, type_length=None):
        self.converted_type, self.logicalType, self.type_length = converted_type, logicalType, type_length


class SchemaShim:
    def schema_element(self, name):
        return SE()
