"""Contract shims used by the E2 harnesses (trusted environment; each is listed in the evidence).

The harness modules import the *staged copy of /repo's working tree* (VERIF_STAGE) so that the real
function objects are what CrossHair executes.
"""
import bisect
import os
import sys

STAGE = os.environ.get("VERIF_STAGE")
if STAGE and STAGE not in sys.path:
    sys.path.insert(0, STAGE)

REPLAY = bool(os.environ.get("VERIF_REPLAY"))


OPS = ["==", "=", "!=", "<", "<=", ">", ">=", "in", "not in"]


def row_pred(op, x, val):
    """documented row-level meaning of one filter clause on a non-null cell x"""
    if op in ("==", "="):
        return x == val
    if op == "!=":
        return x != val
    if op == "<":
        return x < val
    if op == "<=":
        return x <= val
    if op == ">":
        return x > val
    if op == ">=":
        return x >= val
    if op == "in":
        return x in val
    if op == "not in":
        return x not in val
    raise ValueError(op)


class NPShim:
    """the handful of numpy names the filter functions touch, with their documented contracts"""

    class ndarray:      # isinstance(v, np.ndarray) is False for plain values
        pass

    class _IntegerMeta(type):
        def __instancecheck__(cls, x):
            return isinstance(x, int) and not isinstance(x, bool)

        def __subclasscheck__(cls, sub):      # CrossHair's isinstance asks about the symbolic value's Python type
            return issubclass(sub, int) and not issubclass(sub, bool)

    class integer(metaclass=_IntegerMeta):
        """isinstance(v, np.integer): the result of an integer cast (modelled as int); never a Python bool"""

    @staticmethod
    def searchsorted(a, v, side="left"):
        return bisect.bisect_left(a, v) if side == "left" else bisect.bisect_right(a, v)


class Token:
    """stands for the PLAIN-encoded bytes of a statistics bound; read_plain/convert stubs give .value back"""

    def __init__(self, value):
        self.value = value

    def __bool__(self):
        return True


class SE:
    def __init__(self, converted_type=None, logicalType=None, type_length=None):
        self.converted_type, self.logicalType, self.type_length = converted_type, logicalType, type_length


class SchemaShim:
    def schema_element(self, name):
        return SE()


# ------------------------------------------------------------ vector shims ---
class BoolVec:
    """numpy bool 1-d array as the filter code uses it: len, |, &, ~ (also in place), sum, slicing, iteration"""

    def __init__(self, items):
        self.items = list(items)

    def __len__(self):
        return len(self.items)

    def __iter__(self):
        return iter(self.items)

    def __getitem__(self, i):
        if isinstance(i, slice):
            return BoolVec(self.items[i])
        return self.items[i]

    def __or__(self, o):
        return BoolVec([a or b for a, b in zip(self.items, _bvitems(o, len(self.items)))])

    __ior__ = __or__

    def __and__(self, o):
        return BoolVec([a and b for a, b in zip(self.items, _bvitems(o, len(self.items)))])

    __iand__ = __and__

    def __invert__(self):
        return BoolVec([not a for a in self.items])

    def sum(self):
        n = 0
        for a in self.items:
            if a:
                n += 1
        return n

    def any(self):
        for a in self.items:
            if a:
                return True
        return False

    def all(self):
        for a in self.items:
            if not a:
                return False
        return True

    def tolist(self):
        return list(self.items)

    def copy(self):
        return BoolVec(self.items)

    def astype(self, t, copy=False):
        return self

    def nonzero(self):
        return ([i for i, a in enumerate(self.items) if a],)

    def __eq__(self, o):
        if isinstance(o, BoolVec):
            return BoolVec([a == b for a, b in zip(self.items, o.items)])
        return BoolVec([a == o for a in self.items])

    __hash__ = None

    @property
    def values(self):
        return self

    dtype = "bool"


def _bvitems(o, n):
    if isinstance(o, BoolVec):
        return o.items
    if isinstance(o, Col):
        return o.vec.items
    raise TypeError("boolean vector expected, got %r" % type(o))


class Vec:
    """numpy value array: elementwise comparison with a scalar gives a BoolVec"""

    def __init__(self, items):
        self.items = list(items)

    def __len__(self):
        return len(self.items)

    def _cmp(self, f):
        return BoolVec([f(a) for a in self.items])

    def __eq__(self, v):
        return self._cmp(lambda a: a == v)

    def __ne__(self, v):
        return self._cmp(lambda a: a != v)

    def __lt__(self, v):
        return self._cmp(lambda a: a < v)

    def __le__(self, v):
        return self._cmp(lambda a: a <= v)

    def __gt__(self, v):
        return self._cmp(lambda a: a > v)

    def __ge__(self, v):
        return self._cmp(lambda a: a >= v)

    def __invert__(self):
        return BoolVec([not a for a in self.items])

    __hash__ = None


class Col:
    """pandas Series as _column_filter sees it: comparison / isin give a Series whose .values is the mask"""

    def __init__(self, vec):
        self.vec = vec

    @property
    def values(self):
        return self.vec

    def isin(self, vals):
        return Col(BoolVec([a in vals for a in self.vec.items]))

    def __eq__(self, v):
        return Col(self.vec == v)

    def __ne__(self, v):
        return Col(self.vec != v)

    def __lt__(self, v):
        return Col(self.vec < v)

    def __le__(self, v):
        return Col(self.vec <= v)

    def __gt__(self, v):
        return Col(self.vec > v)

    def __ge__(self, v):
        return Col(self.vec >= v)

    __hash__ = None


class Frame:
    def __init__(self, cols, n):
        self.cols, self.n = cols, n

    def __len__(self):
        return self.n

    def __getitem__(self, name):
        return Col(Vec(self.cols[name]))


class NPVec:
    """np.zeros / np.ones with dtype=bool, as used by _column_filter"""
    ndarray = NPShim.ndarray
    integer = NPShim.integer
    searchsorted = NPShim.searchsorted

    @staticmethod
    def zeros(n, dtype=None):
        return BoolVec([False] * n)

    @staticmethod
    def ones(n, dtype=None):
        return BoolVec([True] * n)


# -------------------------------------------------------------- file shims ---
class Seg:
    """a run of bytes identified by a tag and a (possibly symbolic) length; content is opaque"""

    def __init__(self, tag, n, value=None):
        self.tag, self.n, self.value = tag, n, value

    def __len__(self):
        return self.n

    def __getitem__(self, k):
        # bytes slicing; a segment read from a file (value = (start, end) in the file) keeps track of its extent
        if not isinstance(k, slice) or k.step is not None:
            raise TypeError("segment index %r" % (k,))
        n = self.n
        a = 0 if k.start is None else (k.start if k.start >= 0 else n + k.start)
        b = n if k.stop is None else (k.stop if k.stop >= 0 else n + k.stop)
        a = min(max(a, 0), n)
        b = min(max(b, a), n)
        v = self.value
        if isinstance(v, tuple) and len(v) == 2:
            v = (v[0] + a, v[0] + b)
        return Seg(self.tag, b - a, value=v)


class SymFile:
    """binary file as the writer/reader code uses it: seek/tell/read/write/truncate over a length and a write log"""

    def __init__(self, size, name="f"):
        self.size0 = size       # length when opened
        self.size = size
        self.pos = 0
        self.writes = []        # (start, end, tag, value)
        self.reads = []
        self.closed = False
        self.name = name
        self.truncated_to = None

    def __enter__(self):
        return self

    def __exit__(self, *a):
        self.closed = True
        return False

    def close(self):
        self.closed = True

    def tell(self):
        return self.pos

    def seek(self, off, whence=0):
        if whence == 0:
            self.pos = off
        elif whence == 1:
            self.pos = self.pos + off
        else:
            self.pos = self.size + off
        if self.pos < 0:
            raise OSError("negative seek")
        return self.pos

    def read(self, n=-1):
        if n is None or n < 0:
            end = self.size
        else:
            end = min(self.pos + n, self.size)
        end = max(end, self.pos)
        r = Seg("read", end - self.pos, value=(self.pos, end))
        self.reads.append((self.pos, end))
        self.pos = end
        return r

    def write(self, data):
        n = len(data)
        self.writes.append((self.pos, self.pos + n, getattr(data, "tag", "bytes"), getattr(data, "value", None)))
        self.pos = self.pos + n
        if self.pos > self.size:
            self.size = self.pos
        return n

    def truncate(self, size=None):
        if size is None:
            size = self.pos
        self.size = size
        self.truncated_to = size
        return size

    def flush(self):
        pass
