"""C14 - opening/merging many files yields their concatenation: metadata assembly.
Real util.metadata_from_many (legacy path and the footer-gathering path for >= 3 files) and util.analyse_paths;
api.ParquetFile is a shim class (symbolic row groups), fs.cat / _get_fmd are shims."""
import os
from typing import List

from vf.pyshim.kit import REPLAY

import fastparquet.util as util
import fastparquet.api as api
from fastparquet import parquet_thrift

SLEN = int(os.environ.get("VERIF_SLEN", "2"))
LIM = 1 << 40


def _rg(rows, tag, ncols=2):
    cols = []
    for c in range(ncols):
        md = parquet_thrift.ColumnMetaData(type=2, path_in_schema=["c%d" % c], num_values=rows)
        cols.append(parquet_thrift.ColumnChunk(meta_data=md, file_path=None))
    return parquet_thrift.RowGroup(num_rows=rows, total_byte_size=tag, columns=cols)


class PF:
    """stands for api.ParquetFile(fn): a single data file holding the row groups given by the harness"""
    registry = {}

    def __init__(self, fn, open_with=None, **kw):
        self.fn = fn
        rows, schema = PF.registry[fn]
        self.file_scheme = "simple" if rows else "empty"
        self.row_groups = [_rg(r, t) for r, t in rows]
        # real schema elements, compared by value; an entry is a name or (name, converted_type)
        elems = [parquet_thrift.SchemaElement(name=s) if isinstance(s, str) else
                 parquet_thrift.SchemaElement(name=s[0], type=6, converted_type=s[1]) for s in schema]
        self._schema = elems
        self.schema = _SchemaObj(elems)
        self.fmd = parquet_thrift.FileMetaData(version=1, schema=elems, num_rows=sum(r for r, _ in rows),
                                               row_groups=self.row_groups, created_by="x")
        self._head_size = 100


def _ok_paths(files, basepath, fmd, rowspec):
    """row groups appear in file order then intra-file order, each pointing (relative to basepath) at its file"""
    want = []
    for fn, rows in zip(files, rowspec):
        for r, t in rows:
            want.append((t, fn))
    got = []
    for rg in fmd.row_groups:
        fp = rg.columns[0].file_path
        got.append((rg.total_byte_size, (basepath + "/" + fp) if basepath else fp))
    return got == want


def h_many_legacy(r0: int, r1: int, r2: int, r3: int, n0: int, n1: int, nfiles: int, flat: bool) -> bool:
    """
    pre: 0 <= r0 < LIM and 0 <= r1 < LIM and 0 <= r2 < LIM and 0 <= r3 < LIM
    pre: 0 <= n0 <= 2 and 0 <= n1 <= 2 and 1 <= nfiles <= 2
    post: __return__
    """
    # 1-2 files with 0..2 row groups each (verify_schema path / fewer than 3 files: the legacy branch)
    files = ["root/a.parq", "root/b.parq"] if flat else ["root/k=1/a.parq", "root/k=2/a.parq"]
    files = files[:nfiles]
    rowspec = [[(r0, 1), (r1, 2)][:n0], [(r2, 3), (r3, 4)][:n1]][:nfiles]
    PF.registry = {fn: (rows, ["s"]) for fn, rows in zip(files, rowspec)}
    saved = api.ParquetFile
    api.ParquetFile = PF
    try:
        basepath, fmd = util.metadata_from_many(files, verify_schema=True, open_with=None)
    finally:
        api.ParquetFile = saved
    total = sum(r for rows in rowspec for r, _ in rows)
    # every column chunk of a row group names the file (not only the first)
    all_chunks = all(c.file_path == rg.columns[0].file_path for rg in fmd.row_groups for c in rg.columns)
    return _ok_paths(files, basepath, fmd, rowspec) and fmd.num_rows == total and all_chunks


def _real_files(specs, flat):
    """real files with row groups of the given sizes; returns (dir, paths, frames)"""
    import tempfile
    import pandas as pd
    import fastparquet
    d = tempfile.mkdtemp(prefix="c14-")
    names = ["a.parq", "b.parq", "c.parq"] if flat else ["k=1/a.parq", "k=2/a.parq", "k=3/a.parq"]
    paths, frames = [], []
    base = 0
    for name, rows in zip(names, specs):
        rows = [min(max(int(r), 1), 20) for r in rows] or [1]
        fn = os.path.join(d, "root", name)
        os.makedirs(os.path.dirname(fn), exist_ok=True)
        df = pd.DataFrame({"x": list(range(base, base + sum(rows)))})
        base += 1000
        offs = [0]
        for n in rows[:-1]:
            offs.append(offs[-1] + n)
        fastparquet.write(fn, df, row_group_offsets=offs)
        paths.append(fn)
        frames.append(df)
    return d, paths, frames


def replay_h_many_legacy(r0, r1, r2, r3, n0, n1, nfiles, flat):
    import shutil
    import fastparquet
    specs = [[r0, r1][:n0], [r2, r3][:n1]][:nfiles]
    d, paths, frames = _real_files(specs, flat)
    try:
        pf = fastparquet.ParquetFile(paths, verify=True)
        out = list(pf.to_pandas()["x"])
        want = [v for f in frames for v in f["x"]]
        if out != want or pf.count() != len(want):
            return True, "ParquetFile(%d files) returns %d rows (count %d); the files hold %d rows in the given " \
                         "order" % (len(paths), len(out), pf.count(), len(want))
        return False, "concatenation"
    finally:
        shutil.rmtree(d, ignore_errors=True)


class _SchemaObj:
    """schema.SchemaHelper as far as comparisons go"""

    def __init__(self, elems):
        self.elems = [(e.name, e.converted_type) if hasattr(e, "name") else e for e in elems]

    def __eq__(self, o):
        return isinstance(o, _SchemaObj) and self.elems == o.elems

    def __ne__(self, o):
        return not self.__eq__(o)

    __hash__ = None


class _SchemaMod:
    SchemaHelper = _SchemaObj


# same / renamed column / one more column / one column fewer / text annotation missing / text annotation added
SCHEMAS = [["s"], ["t"], ["s", "u"], [], [("s", None)], [("s", 0)]]


KIND = int(os.environ.get("VERIF_KIND", "1"))      # how the odd file differs (lattice): 1 renamed, 2 extra, 3 fewer


def h_many_schema_mismatch(which: int, with_fs: bool) -> bool:
    """
    pre: 1 <= which <= 2
    post: __return__
    """
    kind = KIND
    # with verification requested a file whose schema differs (renamed column, one more, one fewer) is rejected,
    # whether the footers are read one by one or gathered through the filesystem object (>= 3 files)
    files = ["root/a.parq", "root/b.parq", "root/c.parq"]
    base = {4: [("s", 0)], 5: [("s", None)]}.get(kind, SCHEMAS[0])
    PF.registry = {fn: ([(3, i)], ["r"] + (base if i != which else SCHEMAS[kind])) for i, fn in enumerate(files)}
    fs = _FS({files[1]: 50, files[2]: 50}) if with_fs else None
    saved = (api.ParquetFile, util._get_fmd, api.__dict__.get("schema"))
    api.ParquetFile = PF
    util._get_fmd = lambda piece: PF(piece.fn).fmd
    util.int = _IntNS
    api.schema = _SchemaMod
    try:
        try:
            util.metadata_from_many(files, verify_schema=True, open_with=None, fs=fs)
        except ValueError:
            return True
        return False
    finally:
        api.ParquetFile, util._get_fmd = saved[0], saved[1]
        if saved[2] is not None:
            api.schema = saved[2]
        del util.int


def replay_h_many_schema_mismatch(which, with_fs):
    kind = KIND
    import shutil, tempfile
    import pandas as pd
    import fastparquet
    d = tempfile.mkdtemp(prefix="c14-")
    try:
        paths = []
        for i in range(3):
            fn = os.path.join(d, "f%d.parq" % i)
            cols = {"x": [1., 2.], "y": [3., 4.]}
            enc = None
            if kind in (4, 5):
                # a text column in the other files, raw bytes in the odd one (4) - or the other way round (5)
                text = (i != which) if kind == 4 else (i == which)
                cols = {"x": ["a", "b"] if text else [b"a", b"b"], "y": [3., 4.]}
                enc = {"x": "utf8" if text else "bytes"}
            elif i == which:
                cols = [{"z": [1., 2.], "y": [3., 4.]}, {"x": [1., 2.], "y": [3., 4.], "u": [5., 6.]},
                        {"x": [1., 2.]}][kind - 1]
            fastparquet.write(fn, pd.DataFrame(cols), **({"object_encoding": enc} if enc else {}))
            paths.append(fn)
        try:
            fastparquet.ParquetFile(paths, verify=True)       # (a list of local paths always comes with a filesystem)
        except ValueError:
            return False, "rejected"
        except Exception as ex:
            return False, "rejected (%s)" % type(ex).__name__
        return True, "a file with %s is accepted although verification was requested" % (
            ["a renamed column", "one more column", "one column fewer", "a column lacking the text annotation the "
             "others have", "a column carrying a text annotation the others lack"][kind - 1])
    finally:
        shutil.rmtree(d, ignore_errors=True)


class _Piece:
    def __init__(self, fn, footer_len):
        self.fn, self.footer_len = fn, footer_len

    def __getitem__(self, s):
        return ("len-field", self.footer_len)


class _FS:
    def __init__(self, footers):
        self.footers = footers
        self.calls = []

    def cat(self, paths, start=None):
        # fsspec contract: a dict keyed by path; its order is the filesystem's business (local/memory: sorted)
        self.calls.append((list(paths), start))
        return {p: _Piece(p, self.footers[p]) for p in sorted(paths)}


class _Int:
    def __new__(cls, x):
        return x // 1 if not isinstance(x, float) else int.__new__(int, x)

    @staticmethod
    def from_bytes(b, order):
        return b[1]


ORDERS = [[0, 1, 2], [0, 2, 1], [1, 0, 2], [1, 2, 0], [2, 0, 1], [2, 1, 0]]


def h_many_fast(r0: int, r1: int, r2: int, r3: int, n1: int, f1: int, f2: int, order: int) -> bool:
    """
    pre: 0 <= r0 < LIM and 0 <= r1 < LIM and 0 <= r2 < LIM and 0 <= r3 < LIM and 0 <= n1 <= 2
    pre: 1 <= f1 < LIM and 1 <= f2 < LIM and 0 <= order < 6
    post: __return__
    """
    # three plain files given in any order, footers of symbolic length fetched by fs.cat (the >= 3 files branch)
    names = ["root/a.parq", "root/b.parq", "root/c.parq"]
    files = [names[i] for i in ORDERS[order]]
    rowspec = [[(r0, 1)], [(r1, 2), (r2, 3)][:n1], [(r3, 4)]]
    PF.registry = {fn: (rows, ["s"]) for fn, rows in zip(files, rowspec)}
    fs = _FS({files[1]: f1, files[2]: f2})
    saved = (api.ParquetFile, util._get_fmd, util.__dict__.get("int"))
    api.ParquetFile = PF
    util._get_fmd = lambda piece: PF(piece.fn).fmd
    util.int = _IntNS
    try:
        basepath, fmd = util.metadata_from_many(files, verify_schema=False, open_with=None, fs=fs)
    finally:
        api.ParquetFile, util._get_fmd = saved[0], saved[1]
        del util.int
    total = sum(r for rows in rowspec for r, _ in rows)
    # every footer must have been fetched completely: the last fetch of a file starts at least footer+8 from its end
    complete = True
    for fn, fl in ((files[1], f1), (files[2], f2)):
        starts = [-s for paths, s in fs.calls if fn in paths]
        complete = complete and starts[-1] >= fl + 8
    return _ok_paths(files, basepath, fmd, rowspec) and fmd.num_rows == total and complete


def _tail(rows, tag):
    """the last bytes of a real data file holding one row group: some page bytes, footer, footer length, magic"""
    import struct
    elems = [parquet_thrift.SchemaElement(name="s", num_children=1, i32=True),
             parquet_thrift.SchemaElement(name="c0", type=2, repetition_type=0, i32=True)]
    md = parquet_thrift.ColumnMetaData(type=2, encodings=[0], path_in_schema=["c0"], codec=0, num_values=rows,
                                       total_uncompressed_size=8 * rows, total_compressed_size=8 * rows,
                                       data_page_offset=4, i32list=[1, 4])
    rg = parquet_thrift.RowGroup(num_rows=rows, total_byte_size=tag,
                                 columns=[parquet_thrift.ColumnChunk(meta_data=md, file_offset=4)])
    fmd = parquet_thrift.FileMetaData(version=1, schema=elems, num_rows=rows, row_groups=[rg], created_by="x",
                                      i32list=[1])
    foot = bytes(fmd.to_bytes())
    return b"\x07" * 5 + foot + struct.pack("<I", len(foot)) + b"PAR1"


class _FSBytes:
    def __init__(self, tails):
        self.tails = tails

    def cat(self, paths, start=None):
        return {p: self.tails[p][start:] for p in sorted(paths)}


ROWS4 = [2, 3]


class _Memo:
    def __init__(self, fn):
        self.fn, self.seen = fn, {}

    def __call__(self, arg):
        if arg not in self.seen:
            self.seen[arg] = self.fn(arg)
        return self.seen[arg]


def h_many_fast_parsed(i1: int, i2: int, i3: int, t2: int, t3: int) -> bool:
    """
    pre: 0 <= i1 <= 1 and 0 <= i2 <= 1 and 0 <= i3 <= 1 and 1 <= t2 <= 2 and 1 <= t3 <= 3
    post: __return__
    """
    # four plain files; the footers of the last three are fetched as bytes and parsed by the real _get_fmd.  Files may
    # hold the same number of rows and even byte-identical footers (equal sizes and statistics are common for pieces
    # of one table): each row group must still point at its own file
    i1, i2, i3 = _pick2(i1), _pick2(i2), _pick2(i3)
    t2, t3 = _pick3(t2), _pick3(t3)
    files = ["root/a.parq", "root/b.parq", "root/c.parq", "root/d.parq"]
    rows = [2, ROWS4[i1], ROWS4[i2], ROWS4[i3]]
    tags = [9, 1, t2, t3]                       # total_byte_size: equal tags + equal rows = identical footers
    PF.registry = {files[0]: ([(rows[0], tags[0])], ["s"])}
    fs = _FSBytes({files[k]: _tail(rows[k], tags[k]) for k in (1, 2, 3)})
    saved = (api.ParquetFile, util._get_fmd)
    api.ParquetFile = PF
    if hasattr(util._get_fmd, "cache_info"):
        # CrossHair executes the function underneath a functools cache wrapper (the C-level wrapper is not traced):
        # memoisation is modelled explicitly - equal argument, same returned object
        util._get_fmd = _Memo(util._get_fmd.__wrapped__)
    try:
        basepath, fmd = util.metadata_from_many(files, verify_schema=False, open_with=None, fs=fs)
    finally:
        api.ParquetFile, util._get_fmd = saved
    got = [(rg.num_rows, rg.columns[0].file_path) for rg in fmd.row_groups]
    want = [(rows[k], files[k][len("root/"):]) for k in range(4)]
    return basepath == "root" and got == want and fmd.num_rows == sum(rows)


def _pick2(v):
    if v == 0:
        return 0
    if v == 1:
        return 1
    raise ValueError(v)


def _pick3(v):
    for k in (1, 2, 3):
        if v == k:
            return k
    raise ValueError(v)


def replay_h_many_fast_parsed(i1, i2, i3, t2, t3):
    """four real files (pieces of one table: equal length, equal last column and statistics where the witness has
    identical footers) opened as a list"""
    import shutil, tempfile
    import numpy as np
    import pandas as pd
    import fastparquet
    rows = [2, ROWS4[i1], ROWS4[i2], ROWS4[i3]]
    tags = [9, 1, t2, t3]
    d = tempfile.mkdtemp(prefix="c14-")
    try:
        names, want = [], []
        for k in range(4):
            fn = os.path.join(d, "p%d.parq" % k)
            n = rows[k]
            # 'a' differs between files in the middle of a long column (same min/max/size), 'z' is the same: files
            # with equal (rows, tag) end in identical bytes
            a = np.zeros(4000 + n, dtype="int64")
            a[-1] = 5
            a[1000] = k + 1 if k else 0
            z = np.full(4000 + n, tags[k], dtype="int64")
            fastparquet.write(fn, pd.DataFrame({"a": a, "z": z}), stats=True)
            names.append(fn)
            want.append(int(a[1000]))
        out = fastparquet.ParquetFile(names).to_pandas()
        got, pos = [], 0
        for k in range(4):
            got.append(int(out["a"].iloc[pos + 1000]))
            pos += 4000 + rows[k]
        if len(out) != pos or got != want:
            return True, "four files opened as a list: the marker values %r of the files come back as %r (%d rows)" % (
                want, got, len(out))
        return False, "each file's rows are its own"
    finally:
        shutil.rmtree(d, ignore_errors=True)


class _IntNS:
    """util.int as the function uses it: int(1.4 * head_size) and int.from_bytes(<4 length bytes>, 'little')"""

    def __new__(cls, x):
        return 140

    @staticmethod
    def from_bytes(b, order):
        return b[1]


def replay_h_many_fast(r0, r1, r2, r3, n1, f1, f2, order):
    """three real files opened as a list in the given order"""
    import shutil, tempfile
    import pandas as pd
    import fastparquet
    d = tempfile.mkdtemp(prefix="c14-")
    try:
        names = [os.path.join(d, n) for n in ("a.parq", "b.parq", "c.parq")]
        for i, fn in enumerate(names):
            fastparquet.write(fn, pd.DataFrame({"x": [10 * i, 10 * i + 1]}))
        files = [names[i] for i in ORDERS[order]]
        out = fastparquet.ParquetFile(files).to_pandas()
        want = [v for i in ORDERS[order] for v in (10 * i, 10 * i + 1)]
        if list(out["x"]) != want:
            return True, "ParquetFile(%r) returns rows %r, the files in the given order hold %r" % (
                [os.path.basename(f) for f in files], list(out["x"]), want)
        return False, "concatenation in the given order"
    finally:
        shutil.rmtree(d, ignore_errors=True)


# ------------------------------------------------------------------------- analyse_paths ---
def _seg(s):
    return len(s) >= 1 and all(c not in "/" + chr(92) for c in s)


def h_analyse_paths(a: str, b: str, c: str, shape: int) -> bool:
    """
    pre: len(a) <= SLEN and len(b) <= SLEN and len(c) <= SLEN and _seg(a) and _seg(b) and _seg(c) and 0 <= shape <= 2
    post: __return__
    """
    # the common base path joined with each relative path gives back the original path
    if shape == 0:
        files = [a + "/" + b + "/f.parq", a + "/" + c + "/f.parq"]
    elif shape == 1:
        files = [a + "/x.parq", a + "/y.parq", a + "/" + b + "/z.parq"]
    else:
        files = [a + "/" + b + "/" + c + "/f.parq"]
    base, rel = util.analyse_paths(files, root=False)
    back = [(base + "/" + r) if base else r for r in rel]
    return back == files and all(not r.startswith("/") for r in rel)


def replay_h_analyse_paths(a, b, c, shape):
    import fastparquet.util as u
    if shape == 0:
        files = [a + "/" + b + "/f.parq", a + "/" + c + "/f.parq"]
    elif shape == 1:
        files = [a + "/x.parq", a + "/y.parq", a + "/" + b + "/z.parq"]
    else:
        files = [a + "/" + b + "/" + c + "/f.parq"]
    base, rel = u.analyse_paths(files, root=False)
    back = [(base + "/" + r) if base else r for r in rel]
    if back != files:
        return True, "analyse_paths(%r) = (%r, %r) does not rebuild the paths" % (files, base, rel)
    return False, "agrees"


def h_analyse_paths_root(a: str, b: str) -> bool:
    """
    pre: len(a) <= SLEN and len(b) <= SLEN and _seg(a) and _seg(b)
    post: __return__
    """
    files = [a + "/" + b + "/f.parq", a + "/" + b + "/g.parq"]
    base, rel = util.analyse_paths(files, root=a)
    return base == a and rel == [b + "/f.parq", b + "/g.parq"]


def replay_h_analyse_paths_root(a, b):
    import fastparquet.util as u
    files = [a + "/" + b + "/f.parq", a + "/" + b + "/g.parq"]
    base, rel = u.analyse_paths(files, root=a)
    if base != a or rel != [b + "/f.parq", b + "/g.parq"]:
        return True, "analyse_paths(%r, root=%r) = (%r, %r)" % (files, a, base, rel)
    return False, "agrees"


# ------------------------------------------------------------------ hive sub-datasets below plain directories ---
PLAIN_DIRS = ["part0", "part1", "batch", "x"]
KVALS = [0, 1, 10, 42]


def h_paths_mixed_levels(i0: int, i1: int, a: int, b: int, with_name: bool) -> bool:
    """
    pre: 0 <= i0 <= 3 and 0 <= i1 <= 3 and 0 <= a <= 3 and 0 <= b <= 3 and a != b
    post: __return__
    """
    # files of several hive sub-datasets (or single files dropped into key=value directories) opened together: the
    # relative paths mix plain directories and key=value directories; the key=value levels are partition columns, the
    # plain ones are not
    i0, i1 = _pickd(i0), _pickd(i1)
    a, b = KVALS[_pickd(a)], KVALS[_pickd(b)]          # (key values by index: decimal text is rendered concretely)
    fname = "part.0.parquet" if with_name else "data.parquet"
    paths = ["%s/k=%d/%s" % (PLAIN_DIRS[i0], a, fname), "%s/k=%d/%s" % (PLAIN_DIRS[i1], b, fname)]
    scheme, cats = api.paths_to_cats(paths, None)
    return scheme == "hive" and list(cats) == ["k"] and sorted(int(x) for x in cats["k"]) == sorted([a, b])


def _pickd(v):
    for k in range(4):
        if v == k:
            return k
    raise ValueError(v)


def replay_h_paths_mixed_levels(i0, i1, a, b, with_name):
    a, b = KVALS[a], KVALS[b]
    import shutil, tempfile
    import pandas as pd
    import fastparquet
    d = tempfile.mkdtemp(prefix="c14-")
    try:
        fname = "part.0.parquet" if with_name else "data.parquet"
        files = []
        for i, (pd_, k) in enumerate(((PLAIN_DIRS[i0] + "_a", a), (PLAIN_DIRS[i1] + "_b", b))):
            sub = os.path.join(d, pd_, "k=%d" % k)
            os.makedirs(sub)
            fn = os.path.join(sub, fname)
            fastparquet.write(fn, pd.DataFrame({"v": [10 * i, 10 * i + 1]}))
            files.append(fn)
        pf = fastparquet.ParquetFile(files)
        out = pf.to_pandas()
        if "k" not in out.columns or sorted(int(x) for x in out["k"]) != sorted([a, a, b, b]):
            return True, "files %r opened as a list: scheme %r, columns %r" % (
                [os.path.relpath(f, d) for f in files], pf.file_scheme, list(out.columns))
        return False, "partition column recovered"
    finally:
        shutil.rmtree(d, ignore_errors=True)
