"""C07 / C14 / C17: writer.consolidate_categories - the number of categories recorded for a column in the dataset's
pandas metadata covers every chunk.  It sizes the code array a read allocates (int8 up to 127 labels, int16 ...), so
a count below a chunk's own makes that chunk unreadable.  Real function on real FileMetaData / RowGroup / KeyValue
objects; the per-chunk counts are symbolic."""
import json
from typing import List

from vf.pyshim.kit import REPLAY

import fastparquet.writer as writer
from fastparquet import parquet_thrift


def _pick(v, lo, hi):
    for k in range(lo, hi + 1):
        if v == k:
            return k
    raise ValueError(v)


def _key(text, as_bytes):
    # metadata parsed from a file carries its strings as bytes; objects built by the writer carry str
    return text.encode() if as_bytes else text


def _fmd(m, counts, loaded, fresh_from):
    meta = {"columns": [{"name": "x", "metadata": {"num_categories": m, "ordered": False}},
                        {"name": "y", "metadata": None}], "index_columns": []}
    rgs = []
    for i, n in enumerate(counts):
        old = i < fresh_from                     # row groups that were already in the dataset: parsed from its footer
        kv = [parquet_thrift.KeyValue(key=_key("num_categories", old), value=_key(str(n), old))] if n is not None else []
        cx = parquet_thrift.ColumnMetaData(type=2, path_in_schema=["x"], num_values=3, key_value_metadata=kv)
        cy = parquet_thrift.ColumnMetaData(type=2, path_in_schema=["y"], num_values=3)
        rgs.append(parquet_thrift.RowGroup(num_rows=3, columns=[parquet_thrift.ColumnChunk(meta_data=cx),
                                                                parquet_thrift.ColumnChunk(meta_data=cy)]))
    kvs = [parquet_thrift.KeyValue(key=_key("pandas", loaded), value=_key(json.dumps(meta), loaded))]
    return parquet_thrift.FileMetaData(version=1, schema=[], row_groups=rgs, num_rows=3 * len(counts),
                                       key_value_metadata=kvs)


import os
NRG = int(os.environ.get("VERIF_NRG", "2"))          # row groups of the dataset (lattice parameter)
COUNTS = [5, 128, 300]       # below / at / beyond the first code-dtype boundary (int8 holds 127 labels)


def h_consolidate_categories(im: int, i0: int, i1: int, i2: int, k: int, loaded: bool, fresh_from: int) -> bool:
    """
    pre: 0 <= im <= 2 and 0 <= i0 <= 2 and 0 <= i1 <= 2 and 0 <= i2 <= 2 and k == NRG and 0 <= fresh_from <= k
    pre: k == 3 or i2 == 0
    post: __return__
    """
    # the dataset's metadata says m categories for column x; its k row groups record n0, n1, n2 (counts chosen by index
    # from COUNTS: the text <-> integer conversion of the recorded counts is outside what CrossHair decides).  The
    # first `fresh_from` row groups were parsed from the existing footer, the others were just written (append);
    # `loaded` says the same for the metadata object itself.  Afterwards the dataset-level count is the largest.
    k = NRG
    fresh_from = _pick(fresh_from, 0, k)
    m = COUNTS[_pick(im, 0, 2)]
    counts = [COUNTS[_pick(i0, 0, 2)], COUNTS[_pick(i1, 0, 2)]]
    if k == 3:
        counts.append(COUNTS[_pick(i2, 0, 2)])
    fmd = _fmd(m, counts, loaded, fresh_from)
    writer.consolidate_categories(fmd)
    kv = fmd.key_value_metadata[0]
    val = kv.value
    meta = json.loads(val.decode() if isinstance(val, bytes) else val)
    got = meta["columns"][0]["metadata"]["num_categories"]
    return got == max([m] + counts) and meta["columns"][1]["metadata"] is None


def replay_h_consolidate_categories(im, i0, i1, i2, k, loaded, fresh_from):
    """batches with m, n0, n1(, n2) categories (one shared label vocabulary, prefixes of it): (a) written and appended
    into one dataset, hive and single file; (b) written as separate files and opened / merged as a list.  The handle's
    category count must cover every batch, and the rows must read back"""
    import os, shutil, tempfile
    import pandas as pd
    import fastparquet
    counts = [COUNTS[i] for i in [i0, i1, i2][:k]]
    m = COUNTS[im]
    allc = [m] + counts
    labels = ["L%03d" % i for i in range(max(allc))]
    frames, want = [], []
    for c in allc:
        vals = [labels[0], labels[c - 1], labels[(c - 1) // 2]]
        want += vals
        frames.append(pd.DataFrame({"x": pd.Categorical(vals, categories=labels[:c])}))
    d = tempfile.mkdtemp(prefix="c07-")

    def judge(how, opener, read_ok):
        try:
            pf = opener()
            ncat = pf.categories["x"]
        except Exception as ex:
            return "batches with %r categories (%s): %s: %s" % (allc, how, type(ex).__name__, str(ex)[:90])
        if ncat < max(allc):
            return "batches with %r categories (%s): the dataset's metadata records %r categories" % (allc, how, ncat)
        if read_ok:
            try:
                out = [str(v) for v in pf.to_pandas()["x"]]
            except Exception as ex:
                return "batches with %r categories (%s): the dataset cannot be read: %s: %s" % (
                    allc, how, type(ex).__name__, str(ex)[:90])
            if out != want:
                return "batches with %r categories (%s): rows read %r, written %r" % (allc, how, out[:4], want[:4])
        return None
    # (a full read is only meaningful when the last batch carries the largest vocabulary: row groups with differing
    # dictionaries are relabelled with the last one - a separate, known defect)
    read_ok = allc[-1] == max(allc)
    try:
        for scheme in ("hive", "simple"):
            fn = os.path.join(d, "ds-" + scheme)
            try:
                for i, df in enumerate(frames):
                    fastparquet.write(fn, df, file_scheme=scheme, append=i > 0)
            except Exception as ex:
                return True, "batches with %r categories (%s): appending fails: %s: %s" % (
                    allc, scheme, type(ex).__name__, str(ex)[:90])
            bad = judge("appended, " + scheme, lambda: fastparquet.ParquetFile(fn), read_ok)
            if bad:
                return True, bad
        fns = []
        for i, df in enumerate(frames):
            fns.append(os.path.join(d, "piece%d.parq" % i))
            fastparquet.write(fns[-1], df)
        bad = judge("separate files opened as a list", lambda: fastparquet.ParquetFile(fns), read_ok)
        if bad:
            return True, bad
        return False, "count covers every chunk"
    finally:
        shutil.rmtree(d, ignore_errors=True)
