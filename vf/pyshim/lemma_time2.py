"""C07/C01 - timestamp data of one unit encoded under the schema of another (an append to an existing dataset).
The datetime branch of writer.convert is interpreted statement by statement over z3 integers for EVERY entry of
writer.time_factors (annotation of the column, unit of the data): the stored integer, read in the annotation's unit,
must denote the instant of the data value, rounded down when the column's unit is coarser."""
import ast
import inspect
import os
import sys
import textwrap

import z3

from vf.pyshim.lemma_time import _Ev, _branch, _res, _check, Untranslatable, NS, pyfloordiv

UNIT_OF = {"NANOS": "ns", "MICROS": "us", "MILLIS": "ms"}
NAT = -(2 ** 63)


class _Ev2(_Ev):
    """adds: conditionals whose tests are decided by the concrete part of the environment, try blocks (body only), the
    unit list comprehension over the logical type, time_shift by its contract (lemma.timedelta_micros checks it)"""

    def ev(self, n):
        if isinstance(n, ast.ListComp) and "logicalType.TIMESTAMP.unit" in ast.unparse(n):
            return (self.env["LUNIT"],)
        if isinstance(n, ast.Compare) and len(n.ops) == 1:
            a, b = self.ev(n.left), self.ev(n.comparators[0])
            if z3.is_expr(a) or z3.is_expr(b):
                raise Untranslatable("symbolic test " + ast.unparse(n))
            op = n.ops[0]
            if isinstance(op, ast.Eq):
                return a == b
            if isinstance(op, ast.NotEq):
                return a != b
            if isinstance(op, ast.In):
                return a in b
            if isinstance(op, ast.Gt):
                return a > b
            if isinstance(op, ast.Lt):
                return a < b
            raise Untranslatable("comparison " + ast.unparse(n))
        if isinstance(n, ast.BoolOp):
            vals = [self.ev(v) for v in n.values]
            return all(vals) if isinstance(n.op, ast.And) else any(vals)
        if isinstance(n, ast.Constant) and n.value is None:
            return None
        if isinstance(n, ast.Call) and ast.unparse(n.func) == "np.empty":
            return "BUF"
        return _Ev.ev(self, n)

    def run(self, stmts):
        for st in stmts:
            if isinstance(st, ast.If):
                t = self.ev(st.test)
                if z3.is_expr(t):
                    raise Untranslatable("symbolic test " + ast.unparse(st.test))
                r = self.run(st.body if t else st.orelse)
                if r is not None:
                    return r
            elif isinstance(st, ast.Try):
                r = self.run(st.body)
                if r is not None:
                    return r
            elif isinstance(st, ast.Expr) and isinstance(st.value, ast.Call) and \
                    ast.unparse(st.value.func) == "time_shift":
                args = st.value.args
                x = self.ev(args[0])
                f = 1000
                if len(args) > 2:
                    f = self.ev(args[2])
                for k in st.value.keywords:
                    if k.arg == "factor":
                        f = self.ev(k.value)
                if not isinstance(args[1], ast.Name):
                    raise Untranslatable("time_shift target " + ast.unparse(args[1]))
                self.env[args[1].id] = z3.If(x == NAT, NAT, pyfloordiv(x, f))
            else:
                r = _Ev.run(self, [st])
                if r is not None:
                    return r
        return None


def time_factor_table():
    import numpy as np
    import fastparquet.writer as writer
    from fastparquet import parquet_thrift as pt
    res = _res("lemma.time_factor_table[writer.convert/time_factors]",
               ["writer.convert (datetime branch)", "writer.time_factors", "writer.time_shift (by contract)"], {})
    body = _branch(writer.convert, lambda t: t.strip() in ("dtype.kind == 'M'", 'dtype.kind == "M"'))
    if body is None:
        res["status"] = "inconclusive"
        res["inconclusive"].append("datetime branch of writer.convert not found")
        return res
    legacy = {pt.ConvertedType.TIMESTAMP_MICROS: "us", pt.ConvertedType.TIMESTAMP_MILLIS: "ms"}
    V = z3.Int("V")
    n = 0
    for (annot, part) in sorted(writer.time_factors, key=str):
        cu = legacy.get(annot) if not isinstance(annot, str) else UNIT_OF.get(annot)
        if cu is None or part not in NS:
            res["status"] = "inconclusive"
            res["inconclusive"].append("entry %r of time_factors: unknown annotation or unit" % ((annot, part),))
            return res
        env = {"V": V, "UNIT": part, "LUNIT": annot if isinstance(annot, str) else None,
               "converted_type": None if isinstance(annot, str) else annot}
        try:
            ev = _Ev2(env, {"time_factors": dict(writer.time_factors)})
            ev.run(body)
            stored = ev.env.get("out")
            if stored is None or not z3.is_expr(stored):
                raise Untranslatable("the branch leaves no `out`")
        except Untranslatable as ex:
            res["status"] = "inconclusive"
            res["inconclusive"].append("%r: %s" % ((annot, part), ex))
            return res
        lim = (2 ** 62) // max(NS[part], NS[cu])
        s = z3.Solver()
        s.set("timeout", 60000)
        s.add(V >= -lim, V <= lim)
        # instant of the data value in ns, rounded down to the column's unit
        want = pyfloordiv(V * NS[part], NS[cu]) if NS[part] < NS[cu] else V * (NS[part] // NS[cu])
        q = _check(res, s, stored != want)
        n += 1
        if q == "sat":
            v = s.model().eval(V, model_completion=True).as_long()
            res["status"] = "violation"
            res["findings"].append(dict(
                kind="contract", function="writer.convert", obligation="instants kept across units",
                detail="datetime64[%s] value %d encoded for a column annotated %s is stored as another instant" % (
                    part, v, cu),
                shape=dict(harness="lemma.time_factor_table", column=cu, data=part), cls="lemma:time_factor_table",
                witness=dict(driver="py:vf.pyshim.lemma_time2:replay_append_units", args=dict(v=v, column=cu, data=part))))
            return res
        if q == "unknown":
            res["status"] = "inconclusive"
            res["inconclusive"].append("solver unknown for %r" % ((annot, part),))
            return res
    res["reached"] = n
    return res


def replay_append_units(v, column, data):
    import shutil, tempfile
    import numpy as np
    import pandas as pd
    import fastparquet
    d = tempfile.mkdtemp(prefix="c07-")
    try:
        fn = os.path.join(d, "t.parq")
        lim = 2 ** 59 // NS[data]
        v = max(min(int(v), lim), -lim)
        if v == 0:
            v = 1609504496123456789 // NS[data]
        first = pd.DataFrame({"t": np.array([0, 1], dtype="M8[%s]" % column)})
        new = pd.DataFrame({"t": np.array([v, 0], dtype="M8[%s]" % data)})
        fastparquet.write(fn, first)
        try:
            fastparquet.write(fn, new, append=True)
        except Exception as ex:
            back = fastparquet.ParquetFile(fn).to_pandas()["t"]
            if len(back) != 2:
                return True, "append refused (%s) but the file changed" % type(ex).__name__
            return False, "refused, file unchanged"
        out = fastparquet.ParquetFile(fn).to_pandas()["t"].values
        got = int(out[2].astype("M8[ns]").astype("int64"))
        want = (v * NS[data]) // NS[column] * NS[column]
        if got != want:
            return True, ("datetime64[%s] value %s appended to a datetime64[%s] column reads back as %s" % (
                data, np.datetime64(v, data), column, out[2]))
        return False, "instant kept"
    finally:
        shutil.rmtree(d, ignore_errors=True)
