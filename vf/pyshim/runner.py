"""E2 runner: one `crosshair check` process per harness function (+ its reachability twin).

A harness is a plain function with a PEP-316 docstring contract in a module
under vf/pyshim/ (or vf/pyxlift/).  Verdict mapping:
  counterexample                -> violation (witness = the call CrossHair printed)
  "Confirmed over all paths"    -> holds, provided the twin (same pre, `post: False`) is refuted
  anything else                 -> inconclusive
The witness is replayed by `replay_<name>(**args)` from the same module against
the real API (real numpy/pandas/files) - see vf.replay_worker.
"""
import ast
import os
import re
import subprocess
import sys
import tempfile
import time

from vf import env

CH_OPTS = ["--report_all"]


def _func_src(path, name):
    src = open(path).read()
    tree = ast.parse(src)
    for node in tree.body:
        if isinstance(node, ast.FunctionDef) and node.name == name:
            return src, node
    raise KeyError("%s not in %s" % (name, path))


def make_twin(path, name, outdir):
    """copy of the harness module with an extra function <name>__twin: same preconditions, post: False"""
    src, node = _func_src(path, name)
    lines = src.split("\n")
    fn_lines = lines[node.lineno - 1:node.end_lineno]
    # drop decorators' absence; rename and rewrite the postconditions
    body = "\n".join(fn_lines)
    body = re.sub(r"def %s\(" % re.escape(name), "def %s__twin(" % name, body, count=1)
    body, n = re.subn(r"^(\s*)post(\[[^\]]*\])?:.*$", r"\1post: False", body, flags=re.M)
    if n == 0:
        raise ValueError("harness %s has no postcondition" % name)
    # keep a single post line
    seen = [False]

    def once(m):
        if seen[0]:
            return m.group(1) + "pre: True"
        seen[0] = True
        return m.group(0)

    body = re.sub(r"^(\s*)post: False$", once, body, flags=re.M)
    modname = os.path.splitext(os.path.basename(path))[0]
    out = os.path.join(outdir, "%s__twin_%s.py" % (modname, name))
    with open(out, "w") as f:
        f.write(src + "\n\n\n" + body + "\n")
    tw_src, tw_node = _func_src(out, name + "__twin")
    return out, tw_node.lineno + 1


def crosshair(path, line, timeout, extra=()):
    cmd = [sys.executable, "-m", "crosshair", "check"] + CH_OPTS + \
          ["--per_condition_timeout", str(timeout), "--per_path_timeout", str(max(2.0, timeout / 4.0))] + \
          list(extra) + ["%s:%d" % (path, line)]
    t0 = time.time()
    try:
        p = subprocess.run(cmd, capture_output=True, text=True, timeout=timeout * 3 + 60)
        out, err, rc = p.stdout, p.stderr, p.returncode
    except subprocess.TimeoutExpired as ex:
        out, err, rc = (ex.stdout or b"").decode() if isinstance(ex.stdout, bytes) else (ex.stdout or ""), "", "timeout"
    return out, err, rc, time.time() - t0


_call_re = re.compile(r"when calling (\w+)\((.*)\)(?: \(which (?:returns|raises) .*\))?\s*$", re.S)


def parse_output(out):
    """returns (verdict, detail, call_text) ; verdict in confirmed|counterexample|notconfirmed|nopre|error"""
    verdict, detail, call = "error", out.strip()[-400:], None
    for ln in out.split("\n"):
        m = re.match(r"^(.*?):(\d+): (error|info): (.*)$", ln)
        if not m:
            continue
        kind, msg = m.group(3), m.group(4)
        if kind == "info" and msg.startswith("Confirmed over all paths"):
            verdict, detail = "confirmed", msg
        elif kind == "info" and msg.startswith("Not confirmed"):
            verdict, detail = "notconfirmed", msg
        elif kind == "info" and msg.startswith("Unable to meet precondition"):
            verdict, detail = "nopre", msg
        elif kind == "error":
            verdict, detail = "counterexample", msg
            i = out.find(ln)
            head = re.split(r" \(which (?:returns|raises) ", msg)[0]
            mm = re.search(r"when calling (\w+)\((.*)\)\s*$", head, re.S)
            if mm:
                call = (mm.group(1), mm.group(2))
            break
    return verdict, detail, call


def eval_call_args(path, fname, argtext):
    """turn the argument text CrossHair printed into a dict name -> concrete python value"""
    src, node = _func_src(path, fname.replace("__twin", ""))
    names = [a.arg for a in node.args.args]
    ns = {"__builtins__": {"None": None, "True": True, "False": False, "float": float, "bytes": bytes,
                           "bytearray": bytearray, "dict": dict, "list": list, "set": set, "tuple": tuple,
                           "frozenset": frozenset, "int": int, "str": str, "range": range}}

    def capture(*a, **k):
        d = dict(zip(names, a))
        d.update(k)
        return d

    ns["__capture"] = capture

    def jsonable(v):
        # bytes survive the JSON witness file as a tagged hex string (vf.replay_worker turns them back)
        if isinstance(v, (bytes, bytearray)):
            return {"__bytes__": bytes(v).hex()}
        if isinstance(v, (list, tuple)):
            return [jsonable(x) for x in v]
        if isinstance(v, dict):
            return {k: jsonable(x) for k, x in v.items()}
        return v
    try:
        return jsonable(eval("__capture(%s)" % argtext, ns))
    except Exception:
        return None


def run_job(job):
    """job.payload = {file, func, timeout, cls?, shape?}"""
    pl = job["payload"]
    stage = os.environ.get("VERIF_STAGE") or env.stage_dir()
    os.environ["VERIF_STAGE"] = stage
    path = os.path.join(env.VERIF, pl["file"])
    name = pl["func"]
    timeout = pl.get("timeout", 30)
    for k, v in (pl.get("env") or {}).items():
        os.environ[k] = str(v)
    src, node = _func_src(path, name)
    doc = ast.get_docstring(node) or ""
    res = dict(harness="%s.%s" % (os.path.splitext(os.path.basename(path))[0], name), engine="E2-crosshair",
               status="inconclusive", findings=[], inconclusive=[], functions=pl.get("functions", []),
               shape=pl.get("shape", {}), bounds=pl.get("bounds", ""),
               stats=dict(queries=0, sat=0, unsat=0, unknown=0, solver_ms=0.0, paths=0, steps=0))
    out, err, rc, wall = crosshair(path, node.lineno + 1, timeout)
    verdict, detail, call = parse_output(out)
    res["stats"]["queries"] += 1
    res["stats"]["solver_ms"] += wall * 1000
    res["crosshair"] = dict(verdict=verdict, detail=detail[:500], wall_s=round(wall, 2))
    if verdict == "counterexample":
        args = eval_call_args(path, call[0], call[1]) if call else None
        res["status"] = "violation"
        res["stats"]["sat"] += 1
        res["findings"].append(dict(
            kind="contract", function=name, obligation="postcondition of " + name, detail=detail[:600],
            shape=dict(pl.get("shape", {}), harness=name),
            cls="%s:%s" % (pl.get("cls_prefix", os.path.splitext(os.path.basename(path))[0]), name),
            witness=dict(driver="py:%s:%s" % (pl["file"][:-3].replace("/", "."), "replay_" + name),
                         args=args, call_text=(call[1] if call else None),
                         env={k: str(v) for k, v in (pl.get("env") or {}).items()})))
        return [res]
    if verdict == "confirmed":
        # reachability twin: must be refuted
        d = os.path.join(env.CACHE, "scratch")
        os.makedirs(d, exist_ok=True)
        tdir = tempfile.mkdtemp(prefix="twin-", dir=d)
        try:
            tpath, tline = make_twin(path, name, tdir)
            tout, terr, trc, twall = crosshair(tpath, tline, timeout)
            tv, tdetail, _ = parse_output(tout)
        finally:
            import shutil
            shutil.rmtree(tdir, ignore_errors=True)
        res["stats"]["queries"] += 1
        res["stats"]["solver_ms"] += twall * 1000
        res["crosshair"]["twin"] = dict(verdict=tv, detail=tdetail[:200], wall_s=round(twall, 2))
        if tv == "counterexample":
            res["status"] = "holds"
            res["stats"]["unsat"] += 1
            res["stats"]["sat"] += 1
            res["reached"] = 1
        else:
            res["inconclusive"].append("reachability twin was not refuted (%s): assertion may be vacuous" % tv)
        return [res]
    res["stats"]["unknown"] += 1
    res["inconclusive"].append("crosshair: %s (%s)" % (verdict, detail[:300]))
    if verdict == "error":
        res["inconclusive"].append((err or "")[-400:])
    return [res]
