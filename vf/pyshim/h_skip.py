"""C03/C01: the definition-level shortcut of the v1 page reader.  The real core.read_col -> real core.read_data_page ->
real read_def / skip_definition_bytes run on one page of a flat OPTIONAL column.  The page's definition-level block has
a true byte length `dl`: files written by this library always store "no NULLs" as one RLE run (4-byte length, run
header, one value byte); any other writer may use any layout, so `dl` is arbitrary there.  Values decode correctly only
when the reader arrives exactly at the end of the block."""
from typing import List, Optional

from vf.pyshim.kit import REPLAY
from vf.pyshim.h_readcol import Vec, NDArr, Arr, NAN

import fastparquet.core as core
from fastparquet import parquet_thrift
from fastparquet.schema import SchemaHelper

PAGE_BYTES = 4096


class _PageIO:
    def __init__(self, dl):
        self.len, self.pos, self.dl = PAGE_BYTES, 0, dl

    def tell(self):
        return self.pos

    def seek(self, n, whence=0):
        self.pos = self.pos + n if whence == 1 else n

    def read(self, n=-1):
        at = self.pos
        self.pos = self.len
        return ("rest", at)


class _ColIO:
    def __init__(self):
        self.k = 0

    def tell(self):
        return self.k


STATE = [None]      # (levels, values, dl)


class _Enc:
    @staticmethod
    def NumpyIO(x):
        if isinstance(x, tuple) and x[0] == "page":
            return _PageIO(STATE[0][2])
        return _ColIO()

    @staticmethod
    def width_from_max_int(v):
        return int(v).bit_length()


class _TO:
    @staticmethod
    def from_buffer(infile, name):
        infile.k += 1
        n = len(STATE[0][0])
        return parquet_thrift.PageHeader(
            type=parquet_thrift.PageType.DATA_PAGE, compressed_page_size=PAGE_BYTES, uncompressed_page_size=PAGE_BYTES,
            data_page_header=parquet_thrift.DataPageHeader(num_values=n, encoding=parquet_thrift.Encoding.PLAIN))


def _s_read_data(fobj, coding, count, bit_width, out=None):
    # decoder contract (E1): consumes the whole level block, returns `count` levels
    fobj.pos = fobj.dl
    return Vec(list(STATE[0][0])[:count])


def _s_read_plain(raw, type_, count, width=0, utf=False, stat=False):
    levels, values, dl = STATE[0]
    if raw == ("rest", dl):
        return Vec(list(values)[:count])
    return Vec([-777] * count)          # decoding from any other offset gives other bytes


class _NP:
    ndarray = NDArr
    nan = NAN


class _Raw:
    def seek(self, off):
        pass

    def read(self, n):
        return b""


def _schema():
    return [parquet_thrift.SchemaElement(name="schema", num_children=1),
            parquet_thrift.SchemaElement(name="x", type=2, repetition_type=1)]


HELPER = SchemaHelper(_schema())


def run(levels, values, dl, selfmade, null_count, with_stats):
    n = len(levels)
    STATE[0] = (levels, values, dl)
    store = ["unset"] * n
    st = parquet_thrift.Statistics(null_count=null_count) if with_stats else None
    md = parquet_thrift.ColumnMetaData(type=2, path_in_schema=["x"], num_values=n, data_page_offset=4,
                                       total_compressed_size=100, codec=0, statistics=st)
    col = parquet_thrift.ColumnChunk(meta_data=md)
    saved = (core.encoding, core.ThriftObject, core.np, core.convert, core._read_page, core.read_data, core.read_plain)
    core.encoding, core.ThriftObject, core.np = _Enc, _TO, _NP
    core.convert = lambda v, se, dtype=None: v
    core._read_page = lambda f, header, metadata: ("page",)
    core.read_data, core.read_plain = _s_read_data, _s_read_plain
    try:
        core.read_col(col, HELPER, _Raw(), assign=Arr(store), selfmade=selfmade)
    finally:
        (core.encoding, core.ThriftObject, core.np, core.convert, core._read_page, core.read_data,
         core.read_plain) = saved
    return store


def h_skip_nulls(levels: List[int], dl: int, selfmade: bool, with_stats: bool, count_known: bool) -> bool:
    """
    pre: 1 <= len(levels) <= 3 and all(0 <= x <= 1 for x in levels)
    pre: 5 <= dl <= 64
    pre: (not selfmade) or dl == 6
    post: __return__
    """
    # a page of <= 3 rows: this library's writer stores its level block in 6 bytes (RLE run or one bit-packed byte);
    # the chunk statistics, when present, are truthful
    nn = 0
    for x in levels:
        nn += (x == 0)
    values = [100 + i for i in range(len(levels) - nn)]
    got = run(levels, values, dl, selfmade, nn if count_known else None, with_stats)
    want, vi = [], 0
    for x in levels:
        if x == 1:
            want.append(values[vi])
            vi += 1
        else:
            want.append(NAN)
    return got == want


def replay_h_skip_nulls(levels, dl, selfmade, with_stats, count_known):
    import os, shutil, tempfile
    import numpy as np
    import pandas as pd
    import fastparquet
    from vf.pyshim import flat_file
    nulls = [x == 0 for x in levels]
    d = tempfile.mkdtemp(prefix="c03-")
    try:
        fn = os.path.join(d, "t.parq")
        if selfmade:
            vals = [np.nan if z else float(100 + i) for i, z in enumerate(nulls)]
            fastparquet.write(fn, pd.DataFrame({"x": vals}), has_nulls=True, stats=with_stats)
            want = [None if z else float(100 + i) for i, z in enumerate(nulls)]
        else:
            # another writer's file: definition levels as a bit-packed run (a different layout of the same levels),
            # repeated so that the page holds more than 8 rows
            reps = 9
            nulls = nulls * reps
            nval = sum(1 for z in nulls if not z)
            dictionary = [1000 + 3 * i for i in range(16)]
            indices = [i % 16 for i in range(nval)]
            flat_file.build_dict(fn, dictionary, indices, 4, nulls=nulls, optional=True,
                                 stats_null_count=(sum(nulls) if count_known else None) if with_stats else "absent")
            it = iter(indices)
            want = [None if z else float(dictionary[next(it)]) for z in nulls]
        try:
            col = fastparquet.ParquetFile(fn).to_pandas()["x"]
        except Exception as ex:
            return True, "column with NULL layout %r (%s file) cannot be read: %s: %s" % (
                nulls, "own" if selfmade else "foreign", type(ex).__name__, str(ex)[:80])
        got = [None if pd.isna(x) else float(x) for x in col.astype("object")]
        if got != want:
            return True, "column with NULL layout %r (%s file, statistics %s) reads as %r, encodes %r" % (
                nulls[:8], "own" if selfmade else "foreign",
                "absent" if not with_stats else ("null_count known" if count_known else "without null_count"),
                got[:8], want[:8])
        return False, "agrees"
    finally:
        shutil.rmtree(d, ignore_errors=True)
