"""C04 / C05 / C01: converted_types.convert for the integer-like converted types.  The real function runs on an array
shim whose storage is one symbolic integer of the physical type (INT32 / INT64); astype() is numpy's contract for
integer casts (wrap to the target width).  What a caller that uses the *returned value directly* sees - the statistics
path: filter_out_stats, ParquetFile.statistics - must be the logical value."""
from typing import List

from vf.pyshim.kit import REPLAY

import numpy as np
import fastparquet.converted_types as ct
from fastparquet import parquet_thrift

CT = parquet_thrift.ConvertedType
KINDS = [("UINT_8", 8, False), ("UINT_16", 16, False), ("UINT_32", 32, False), ("UINT_64", 64, False),
         ("INT_8", 8, True), ("INT_16", 16, True), ("INT_32", 32, True), ("INT_64", 64, True)]


def _pick(v, lo, hi):
    for k in range(lo, hi + 1):
        if v == k:
            return k
    raise ValueError(v)


class _DT:
    def __init__(self, bits, signed):
        self.bits, self.signed = bits, signed
        self.itemsize, self.kind = bits // 8, "i" if signed else "u"

    def __eq__(self, o):
        return o == ("%sint%d" % ("" if self.signed else "u", self.bits))

    def __ne__(self, o):
        return not self.__eq__(o)

    __hash__ = None


class IntArr:
    """a one-element integer array: `v` is the element as a Python integer in the range of its dtype"""

    def __init__(self, v, bits, signed):
        self.v, self.dtype = v, _DT(bits, signed)

    def __len__(self):
        return 1

    def astype(self, t, copy=True):
        dt = np.dtype(t)
        if dt.kind not in "iu":
            raise TypeError("cast to %s is not modelled" % dt)
        bits = dt.itemsize * 8
        w = self.v % (1 << bits)                         # numpy: integer casts keep the low bits
        if dt.kind == "i" and w >= 1 << (bits - 1):
            w -= 1 << bits
        return IntArr(w, bits, dt.kind == "i")

    def view(self, t):
        dt = np.dtype(t)
        if dt.kind in "iu" and dt.itemsize * 8 == self.dtype.bits:
            w = self.v % (1 << self.dtype.bits)
            if dt.kind == "i" and w >= 1 << (self.dtype.bits - 1):
                w -= 1 << self.dtype.bits
            return IntArr(w, self.dtype.bits, dt.kind == "i")
        raise TypeError("view as %s is not modelled" % dt)


def h_convert_intlike(v: int, ik: int, wide: bool) -> bool:
    """
    pre: 0 <= ik < 8 and -(1 << 63) <= v < (1 << 63)
    post: __return__
    """
    # the stored integer v (INT32 storage for the types of up to 32 bits, or INT64 when `wide` / for the 64-bit types)
    # of a column whose converted type is KINDS[ik]: the value handed back is the logical one - the stored bits read
    # as an unsigned (signed) integer of the declared width
    ik = _pick(ik, 0, 7)
    name, bits, signed = KINDS[ik]
    phys64 = wide or bits == 64
    pbits = 64 if phys64 else 32
    if not (-(1 << (pbits - 1)) <= v < (1 << (pbits - 1))):
        return True
    # what a conforming writer stores: the logical value's low bits, sign-extended into the physical type
    se = parquet_thrift.SchemaElement(name="x", type=parquet_thrift.Type.INT64 if phys64 else parquet_thrift.Type.INT32,
                                      converted_type=getattr(CT, name))
    out = ct.convert(IntArr(v, pbits, True), se)
    want = v % (1 << bits)
    if signed and want >= 1 << (bits - 1):
        want -= 1 << bits
    return isinstance(out, IntArr) and out.v == want and out.dtype.signed == signed and out.dtype.bits == bits


def replay_h_convert_intlike(v, ik, wide):
    """the real numpy array through the real convert; then a real file whose column holds the logical value: the
    statistics the handle reports and a filter just below it"""
    import os, shutil, tempfile
    import pandas as pd
    import fastparquet
    name, bits, signed = KINDS[ik]
    phys64 = wide or bits == 64
    pbits = 64 if phys64 else 32
    v = max(min(v, (1 << (pbits - 1)) - 1), -(1 << (pbits - 1)))
    want = v % (1 << bits)
    if signed and want >= 1 << (bits - 1):
        want -= 1 << bits
    se = parquet_thrift.SchemaElement(name="x", type=parquet_thrift.Type.INT64 if phys64 else parquet_thrift.Type.INT32,
                                      converted_type=getattr(CT, name))
    out = ct.convert(np.array([v], dtype="int64" if phys64 else "int32"), se)
    if int(out[0]) != want:
        return True, "convert(%s storage %d, %s) returns %r, the logical value is %d" % (
            "INT64" if phys64 else "INT32", v, name, out[0], want)
    d = tempfile.mkdtemp(prefix="c04-")
    try:
        fn = os.path.join(d, "t.parq")
        dt = "%sint%d" % ("" if signed else "u", bits)
        lo = 0 if not signed else -(1 << (bits - 1))
        other = lo if want != lo else lo + 1
        fastparquet.write(fn, pd.DataFrame({"x": np.array([other, want], dtype=dt)}), stats=True)
        pf = fastparquet.ParquetFile(fn)
        st = pf.statistics
        if int(st["max"]["x"][0]) != max(other, want) or int(st["min"]["x"][0]) != min(other, want):
            return True, "%s column holding %r: statistics report min=%r max=%r" % (
                dt, [other, want], st["min"]["x"][0], st["max"]["x"][0])
        kept = [int(x) for x in pf.to_pandas(filters=[("x", ">=", max(other, want))], row_filter=True)["x"]]
        if kept != [max(other, want)]:
            return True, "%s column holding %r: filter x >= %d keeps %r" % (dt, [other, want], max(other, want), kept)
        return False, "logical value preserved"
    finally:
        shutil.rmtree(d, ignore_errors=True)


# ------------------------------------------------------------------ DECIMAL stored as big-endian two's complement bytes ---
DEC_VALUES = [0, 1, -1, 127, -128, 255, -256, 32767, -32768, 8388607, -8388608, 2147483647, -2147483648,
              549755813887, -549755813888, 9223372036854775807, -9223372036854775808, 123456789, -123456789]


def _fits(v, nb):
    return -(1 << (8 * nb - 1)) <= v < (1 << (8 * nb - 1))


def h_convert_decimal_bytes(iv: int, nb: int, scale: int) -> bool:
    """
    pre: 0 <= iv < 19 and 1 <= nb <= 9 and 0 <= scale <= 2
    post: __return__
    """
    # FIXED_LEN_BYTE_ARRAY(nb) / BYTE_ARRAY DECIMAL: the unscaled value is the bytes read as a big-endian two's
    # complement integer (negative values have their high bits set).  Values and widths are chosen by index (the real
    # numpy runs on concrete bytes)
    iv, nb, scale = _pick(iv, 0, 18), _pick(nb, 1, 9), _pick(scale, 0, 2)
    v = DEC_VALUES[iv]
    if not _fits(v, nb):
        return True
    raw = v.to_bytes(nb, "big", signed=True)
    se = parquet_thrift.SchemaElement(name="x", type=parquet_thrift.Type.FIXED_LEN_BYTE_ARRAY, type_length=nb,
                                      converted_type=CT.DECIMAL, scale=scale, precision=19)
    # every value is concrete here: the real function runs untraced (CrossHair's replacement of int.from_bytes does
    # not take the memoryview of a fixed-width bytes array)
    try:
        from crosshair.tracers import NoTracing
    except ImportError:
        NoTracing = None
    if NoTracing is None:
        out = ct.convert(np.array([raw, raw], dtype="S%d" % nb), se)
    else:
        with NoTracing():
            out = ct.convert(np.array([raw, raw], dtype="S%d" % nb), se)
            got = [float(out[0]), float(out[1])] if len(out) == 2 else None
        want = v * 10 ** -scale
        return got == [float(want), float(want)]
    want = v * 10 ** -scale
    return len(out) == 2 and float(out[0]) == float(want) and float(out[1]) == float(want)


def replay_h_convert_decimal_bytes(iv, nb, scale):
    v = DEC_VALUES[iv]
    raw = v.to_bytes(nb, "big", signed=True)
    se = parquet_thrift.SchemaElement(name="x", type=parquet_thrift.Type.FIXED_LEN_BYTE_ARRAY, type_length=nb,
                                      converted_type=CT.DECIMAL, scale=scale, precision=19)
    out = ct.convert(np.array([raw, raw], dtype="S%d" % nb), se)
    want = v * 10 ** -scale
    if float(out[0]) != float(want):
        return True, "DECIMAL(scale %d) stored in %d bytes %s decodes to %r, the value is %r" % (
            scale, nb, raw.hex(), out[0], want)
    return False, "decoded"


# ------------------------------------------------------------------ statistics values through both converters ---
import pandas as pd
import fastparquet.writer as writer

TEXTS = ["ab", "ab ", " ab", "ab  ", "a b", "", " ", "é ", "ab\t"]
BIG = [0, 1, -1, (1 << 53) + 1, -(1 << 53) - 1, (1 << 63) - 1, -(1 << 63), (1 << 31), (1 << 32) - 1, 123456789012345679]
IDT = ["Int64", "UInt64", "Int32", "UInt32", "int64", "uint64"]


def _untraced(fn):
    try:
        from crosshair.tracers import NoTracing
    except ImportError:
        return fn()
    with NoTracing():
        return fn()


def h_stat_text_decodes(i: int, fixed: bool) -> bool:
    """
    pre: 0 <= i < 9
    post: __return__
    """
    # the min / max bytes of a text column as ParquetFile.statistics decodes them (an array of bytes strings through
    # converted_types.convert): exactly the stored text, blanks included.  Texts are chosen by index; the real
    # numpy / pandas run untraced on the concrete bytes
    t = TEXTS[_pick(i, 0, 8)]
    raw = t.encode("utf8")
    if len(raw) == 0 and fixed:
        return True

    def run():
        se = parquet_thrift.SchemaElement(name="x", type=parquet_thrift.Type.BYTE_ARRAY, converted_type=CT.UTF8)
        arr = np.array([raw, raw], dtype=("S%d" % len(raw)) if fixed else None)
        out = ct.convert(arr, se)
        return [str(x) for x in out]
    return _untraced(run) == [t, t]


def replay_h_stat_text_decodes(i, fixed):
    import os, shutil, tempfile
    import fastparquet
    t = TEXTS[i]
    d = tempfile.mkdtemp(prefix="c04-")
    try:
        fn = os.path.join(d, "t.parq")
        fastparquet.write(fn, pd.DataFrame({"x": [t, t + "z"], "y": ["0" + t, t]}), stats=True)
        st = fastparquet.ParquetFile(fn).statistics
        got = (st["min"]["x"][0], st["max"]["y"][0])
        if got != (t, "0" + t if "0" + t > t else t):
            return True, "text column holding %r: statistics report min(x)=%r max(y)=%r" % (t, got[0], got[1])
        return False, "statistics carry the stored text"
    finally:
        shutil.rmtree(d, ignore_errors=True)


def h_writer_convert_ints(iv: int, it: int) -> bool:
    """
    pre: 0 <= iv < 10 and 0 <= it < 6
    post: __return__
    """
    # writer.convert on an integer series (what the page values and the min/max of a chunk go through), plain and
    # nullable dtypes: the stored integer has the bits of the value - also beyond 2**53, where a detour through
    # floating point rounds
    v, name = BIG[_pick(iv, 0, 9)], IDT[_pick(it, 0, 5)]
    bits = 32 if "32" in name else 64
    unsigned = name.lower().startswith("u")
    lo, hi = (0, (1 << bits) - 1) if unsigned else (-(1 << (bits - 1)), (1 << (bits - 1)) - 1)
    if not (lo <= v <= hi):
        return True

    def run():
        ser = pd.Series(np.array([v], dtype=name.lower()))
        if name[0].isupper():
            ser = ser.astype(name)
        se, _ = writer.find_type(ser)
        out = writer.convert(ser, se)
        return int(np.asarray(out).astype("int64" if bits == 64 else "int32").view("uint64" if bits == 64 else "uint32")[0])
    return _untraced(run) == v % (1 << bits)


def replay_h_writer_convert_ints(iv, it):
    import os, shutil, tempfile
    import fastparquet
    v, name = BIG[iv], IDT[it]
    bits = 32 if "32" in name else 64
    unsigned = name.lower().startswith("u")
    lo, hi = (0, (1 << bits) - 1) if unsigned else (-(1 << (bits - 1)), (1 << (bits - 1)) - 1)
    if not (lo <= v <= hi):
        return None, "value outside the dtype"
    d = tempfile.mkdtemp(prefix="c04-")
    try:
        fn = os.path.join(d, "t.parq")
        other = 0 if v != 0 else 1
        ser = pd.Series(np.array([other, v], dtype=name.lower()))
        if name[0].isupper():
            ser = ser.astype(name)
        fastparquet.write(fn, pd.DataFrame({"x": ser}), stats=True)
        pf = fastparquet.ParquetFile(fn)
        st = pf.statistics
        got = (int(st["min"]["x"][0]), int(st["max"]["x"][0]))
        vals = [int(x) for x in pf.to_pandas()["x"]]
        if vals != [other, v] or got != (min(other, v), max(other, v)):
            return True, "%s column holding %r: read back %r, statistics min/max %r" % (name, [other, v], vals, got)
        return False, "values and statistics exact"
    finally:
        shutil.rmtree(d, ignore_errors=True)


# ------------------------------------------------------------------ a chunk's text bound as the pruning pass sees it ---
import fastparquet.encoding as enc_mod

TEXTS2 = ["ab", "ab\x00", "ab ", "a\x00b", "\x00", "é\x00", "ab\x00\x00"]


def h_stat_bound_decodes(i: int, utf: bool) -> bool:
    """
    pre: 0 <= i < 7
    post: __return__
    """
    # filter_out_stats decodes a stored min/max with encoding.read_plain(bytes, type, 1, stat=True) and, for annotated
    # columns, converted_types.convert: the value compared with the filter constant is the stored text / bytes, every
    # byte of it (a trailing NUL included)
    t = TEXTS2[_pick(i, 0, 6)]
    raw = t.encode("utf8")

    def run():
        se = parquet_thrift.SchemaElement(name="x", type=parquet_thrift.Type.BYTE_ARRAY,
                                          converted_type=CT.UTF8 if utf else None)
        v = enc_mod.read_plain(raw, parquet_thrift.Type.BYTE_ARRAY, 1, stat=True)
        if se.converted_type is not None:
            v = ct.convert(v, se)
        got = v[0]
        return (got == t and isinstance(got, str)) if utf else (bytes(got) == raw and len(got) == len(raw))
    return _untraced(run)


def replay_h_stat_bound_decodes(i, utf):
    import os, shutil, tempfile
    import fastparquet
    t = TEXTS2[i]
    const = t.rstrip("\x00") if t.endswith("\x00") else t[:-1]
    if "\x00" in const:
        # (row-level comparison with a constant that itself holds a NUL goes through numpy's fixed-width strings and
        # is a separate matter)
        return None, "no NUL-free filter constant below this bound"
    d = tempfile.mkdtemp(prefix="c13-")
    try:
        fn = os.path.join(d, "t.parq")
        vals = ["", t] if utf else [b"", t.encode()]
        fastparquet.write(fn, pd.DataFrame({"x": vals, "k": [1, 2]}), stats=True,
                          object_encoding={"x": "utf8" if utf else "bytes"})
        pf = fastparquet.ParquetFile(fn)
        c = const if utf else const.encode()
        out = pf.to_pandas(filters=[("x", ">", c)], row_filter=True)
        want = [k for k, v in zip([1, 2], vals) if v > c]
        if list(out["k"]) != want:
            return True, "column holding %r (statistics on): filter x > %r keeps rows k=%r, rows k=%r satisfy it" % (
                vals, c, list(out["k"]), want)
        return False, "bound decoded in full"
    finally:
        shutil.rmtree(d, ignore_errors=True)
