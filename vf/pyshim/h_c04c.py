"""C04: what api.statistics reports is what the chunk stores.  The real api.statistics runs on real ColumnChunk /
RowGroup thrift objects whose Statistics fields are symbolic (each bound present or absent, in the legacy max/min or the
newer max_value/min_value field, byte strings of symbolic length including empty, symbolic null/distinct counts);
decoding of fixed-width bounds (encoding.read_plain -> numpy) is a contract stub."""
from typing import List, Optional

from vf.pyshim.kit import REPLAY

import fastparquet.api as api
from fastparquet import parquet_thrift


class _EncStub:
    @staticmethod
    def read_plain(raw, type_, count, width=0, utf=False, stat=False):
        return [("decoded", type_, raw)]


def _chunk(ptype, mx, mn, mxv, mnv, nulls, distinct, name="a"):
    st = parquet_thrift.Statistics(max=mx, min=mn, max_value=mxv, min_value=mnv, null_count=nulls,
                                   distinct_count=distinct)
    md = parquet_thrift.ColumnMetaData(type=ptype, path_in_schema=[name], num_values=10, statistics=st)
    return parquet_thrift.ColumnChunk(meta_data=md)


def _want(ptype, legacy, newer):
    raw = legacy if legacy is not None else newer
    if raw is None:
        return None
    if ptype == parquet_thrift.Type.BYTE_ARRAY:
        return raw
    return ("decoded", ptype, raw)


def h_statistics_chunk(is_bytes: bool, mx: Optional[bytes], mn: Optional[bytes], mxv: Optional[bytes],
                       mnv: Optional[bytes], nulls: Optional[int], distinct: Optional[int]) -> bool:
    """
    pre: (mx is None or len(mx) <= 2) and (mn is None or len(mn) <= 2)
    pre: (mxv is None or len(mxv) <= 2) and (mnv is None or len(mnv) <= 2)
    pre: (nulls is None or nulls >= 0) and (distinct is None or distinct >= 0)
    pre: is_bytes or all(x is None or len(x) >= 1 for x in (mx, mn, mxv, mnv))
    post: __return__
    """
    # every stored statistic is reported (a bound that is the empty byte string is still a bound; a count of zero is
    # still a count), legacy fields take precedence over the *_value fields, and nothing that is absent is invented
    ptype = parquet_thrift.Type.BYTE_ARRAY if is_bytes else parquet_thrift.Type.INT64
    saved = api.encoding
    api.encoding = _EncStub
    try:
        rv = api.statistics(_chunk(ptype, mx, mn, mxv, mnv, nulls, distinct))
    finally:
        api.encoding = saved
    wmax, wmin = _want(ptype, mx, mxv), _want(ptype, mn, mnv)
    if rv.get("max") != wmax or rv.get("min") != wmin:
        return False
    if ("max" in rv) != (wmax is not None) or ("min" in rv) != (wmin is not None):
        return False
    return rv.get("null_count") == nulls and rv.get("distinct_count") == distinct


def _tob(x):
    return x.encode("latin-1") if isinstance(x, str) else x


def replay_h_statistics_chunk(is_bytes, mx, mn, mxv, mnv, nulls, distinct):
    import struct
    mx, mn, mxv, mnv = _tob(mx), _tob(mn), _tob(mxv), _tob(mnv)
    ptype = parquet_thrift.Type.BYTE_ARRAY if is_bytes else parquet_thrift.Type.INT64

    def real(b):
        # the integer case needs 8-byte bounds for the real decoder: keep emptiness / presence, pad the content
        if b is None or is_bytes:
            return b
        return struct.pack("<q", len(b) * 7 + sum(b))
    mx, mn, mxv, mnv = real(mx), real(mn), real(mxv), real(mnv)
    rv = api.statistics(_chunk(ptype, mx, mn, mxv, mnv, nulls, distinct))

    def dec(b):
        if b is None:
            return None
        return b if is_bytes else struct.unpack("<q", b)[0]
    wmax = dec(mx if mx is not None else mxv)
    wmin = dec(mn if mn is not None else mnv)
    got = (rv.get("max"), rv.get("min"), rv.get("null_count"), rv.get("distinct_count"))
    if got != (wmax, wmin, nulls, distinct):
        return True, "chunk statistics max=%r min=%r max_value=%r min_value=%r null_count=%r distinct_count=%r are " \
                     "reported as %r" % (mx, mn, mxv, mnv, nulls, distinct, rv)
    return False, "statistics reported as stored"


class _Schema:
    def schema_element(self, path):
        return parquet_thrift.SchemaElement(name=path[-1], type=parquet_thrift.Type.INT64)


def h_statistics_file(a0: Optional[bytes], a1: Optional[bytes], b0: Optional[bytes], b1: Optional[bytes],
                      n0: Optional[int], n1: Optional[int], has0: bool, has1: bool) -> bool:
    """
    pre: all(x is None or len(x) <= 1 for x in (a0, a1, b0, b1))
    pre: (n0 is None or n0 >= 0) and (n1 is None or n1 >= 0)
    post: __return__
    """
    # two row groups x two columns: entry i of every per-column list describes row group i (None where that chunk
    # carries no such statistic), for both columns independently
    T = parquet_thrift.Type.BYTE_ARRAY

    def rg(a, b, n, has):
        ca = _chunk(T, a, a, None, None, n, None, "a") if has else parquet_thrift.ColumnChunk(
            meta_data=parquet_thrift.ColumnMetaData(type=T, path_in_schema=["a"], num_values=10))
        cb = _chunk(T, None, None, b, b, None, None, "b")
        return parquet_thrift.RowGroup(columns=[ca, cb], num_rows=10)
    pf = object.__new__(api.ParquetFile)
    pf.__dict__.update(row_groups=[rg(a0, b0, n0, has0), rg(a1, b1, n1, has1)], schema=_Schema())
    saved = api.ParquetFile.columns
    api.ParquetFile.columns = ["a", "b"]
    try:
        d = api.statistics(pf)
    finally:
        api.ParquetFile.columns = saved
    wa = [a0 if has0 else None, a1 if has1 else None]
    wn = [n0 if has0 else None, n1 if has1 else None]
    return (d["max"]["a"] == wa and d["min"]["a"] == wa and d["null_count"]["a"] == wn and
            d["max"]["b"] == [b0, b1] and d["min"]["b"] == [b0, b1] and d["null_count"]["b"] == [None, None] and
            d["distinct_count"]["a"] == [None, None])


def replay_h_statistics_file(a0, a1, b0, b1, n0, n1, has0, has1):
    a0, a1, b0, b1 = _tob(a0), _tob(a1), _tob(b0), _tob(b1)
    ok = h_statistics_file(a0, a1, b0, b1, n0, n1, has0, has1)      # no stub is active in this harness: real code
    if not ok:
        return True, "per-row-group statistics lists do not line up with the row groups for bounds a=%r b=%r " \
                     "null counts %r (statistics present: %r)" % ([a0, a1], [b0, b1], [n0, n1], [has0, has1])
    return False, "lists line up"
