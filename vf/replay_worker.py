"""Replay of an E2/E3 witness: calls replay_<harness>(**args) from the harness module, which drives the real API
(real numpy / pandas / files / compiled extension) in a scratch directory.  Prints `REPLAY {json}`."""
import importlib
import json
import os
import sys
import traceback


def main():
    w = json.load(open(sys.argv[1]))
    stage = os.environ.get("VERIF_STAGE")
    if stage and stage not in sys.path:
        sys.path.insert(0, stage)
    _, modname, fn = w["driver"].split(":")
    os.environ["VERIF_REPLAY"] = "1"
    try:
        mod = importlib.import_module(modname)
        f = getattr(mod, fn)
        args = w.get("args")
        if args is None:
            print("REPLAY " + json.dumps(dict(reproduced=None, info="could not parse the counterexample arguments: %s"
                                              % w.get("call_text"))))
            return
        def unjson(v):
            if isinstance(v, dict) and set(v) == {"__bytes__"}:
                return bytes.fromhex(v["__bytes__"])
            if isinstance(v, list):
                return [unjson(x) for x in v]
            if isinstance(v, dict):
                return {k: unjson(x) for k, x in v.items()}
            return v
        ok, info = f(**unjson(args))
        print("REPLAY " + json.dumps(dict(reproduced=ok, info=str(info)[:600])))
    except Exception as ex:
        print("REPLAY " + json.dumps(dict(reproduced=None, info="replay driver raised %s: %s | %s" % (
            type(ex).__name__, ex, traceback.format_exc()[-400:]))))


if __name__ == "__main__":
    main()
