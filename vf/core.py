"""Orchestration shared by all property checks: parallel job runner, replay,
known-finding matching, evidence, exit codes.

Job kinds
  llsym      : list of [kernel-harness name, kwargs] run by vf.llsym.worker in one process
  crosshair  : one harness function checked by `crosshair check` (vf.pyshim.runner)
  pyfunc     : "module:function" called in a subprocess, returns a result dict (direct SMT lemmas etc.)
Each job yields a list of result dicts:
  {harness, engine, status: holds|violation|inconclusive|error, findings: [...], stats: {...}, ...}
"""
import hashlib
import json
import os
import subprocess
import sys
import tempfile
import time

from . import env

VERIF = env.VERIF
PY = sys.executable
EXIT_OK, EXIT_VIOLATION, EXIT_HARNESS = 0, 1, 2


def _scratch():
    d = os.path.join(env.CACHE, "scratch")
    os.makedirs(d, exist_ok=True)
    return d


# ------------------------------------------------------------------ jobs ----
def run_jobs(jobs, nproc=16, default_timeout=600):
    """jobs: list of dict(name, kind, payload, timeout).  Returns list of result dicts."""
    stage = env.stage_dir()
    pending = list(enumerate(jobs))
    running = []
    results = [None] * len(jobs)
    envv = dict(os.environ)
    envv["PYTHONPATH"] = VERIF + os.pathsep + envv.get("PYTHONPATH", "")
    envv["VERIF_STAGE"] = stage
    envv.setdefault("PYTHONHASHSEED", "0")

    def start(i, job):
        fd, path = tempfile.mkstemp(prefix="job-", suffix=".json", dir=_scratch())
        with os.fdopen(fd, "w") as f:
            json.dump(job, f)
        out = open(path + ".out", "w+")
        err = open(path + ".err", "w+")
        p = subprocess.Popen([PY, "-m", "vf.worker", path], stdout=out, stderr=err, env=envv, cwd=VERIF)
        running.append((i, job, p, time.time(), path, out, err))

    while pending or running:
        while pending and len(running) < nproc:
            i, job = pending.pop(0)
            start(i, job)
        time.sleep(0.05)
        for ent in list(running):
            i, job, p, t0, path, out, err = ent
            rc = p.poll()
            to = job.get("timeout", default_timeout)
            if rc is None and time.time() - t0 > to:
                p.kill()
                p.wait()
                rc = "timeout"
            if rc is None:
                continue
            running.remove(ent)
            out.seek(0)
            err.seek(0)
            so, se = out.read(), err.read()
            out.close()
            err.close()
            for suffix in ("", ".out", ".err"):
                try:
                    os.remove(path + suffix)
                except OSError:
                    pass
            wall = time.time() - t0
            res = None
            if rc == 0:
                for line in reversed(so.strip().split("\n")):
                    if line.startswith("RESULT "):
                        res = json.loads(line[7:])
                        break
            if res is None:
                status = "inconclusive" if rc == "timeout" else "error"
                res = [dict(harness=job["name"], engine=job["kind"], status=status, findings=[],
                            inconclusive=["job %s" % ("timed out after %ds" % to if rc == "timeout"
                                                      else "failed rc=%s" % rc)],
                            error=(se[-1500:] if rc != "timeout" else ""), stats={})]
            for r in res:
                r["wall_s"] = round(wall / max(1, len(res)), 3)
                r["job"] = job["name"]
            results[i] = res
    return [r for rs in results for r in rs]


# --------------------------------------------------------------- findings ---
def load_known():
    p = os.path.join(VERIF, "known_findings.json")
    if not os.path.exists(p):
        return []
    return json.load(open(p))["findings"]


def _cond_ok(cond, shape):
    if not cond:
        return True
    try:
        return bool(eval(cond, {"__builtins__": {}}, dict(shape, min=min, max=max, len=len, any=any, all=all, chr=chr, ord=ord, abs=abs, sum=sum, sorted=sorted, range=range)))
    except Exception:
        return False


def match_known(finding, known, prop):
    for k in known:
        if k.get("status", "known") != "known":
            continue
        if prop not in k["properties"]:
            continue
        m = k["match"]
        if m.get("cls") and m["cls"] != finding.get("cls"):
            continue
        if m.get("cls_prefix") and not str(finding.get("cls", "")).startswith(m["cls_prefix"]):
            continue
        if m.get("harness_prefix") and not str(finding.get("harness", "")).startswith(m["harness_prefix"]):
            continue
        env_ = dict(finding.get("shape") or {})
        env_.update((finding.get("witness") or {}).get("args") or {})
        if m.get("cond") and (finding.get("witness") or {}).get("driver", "").startswith("py:") and \
                (finding.get("witness") or {}).get("args") is None:
            continue
        if not _cond_ok(m.get("cond"), env_):
            continue
        return k
    return None


def finding_key(f):
    return hashlib.sha1(json.dumps([f.get("cls"), f.get("shape"), f.get("harness")], sort_keys=True,
                                   default=str).encode()).hexdigest()[:12]


# ----------------------------------------------------------------- replay ---
def replay_native(witness, sanitize, kind=None):
    """returns (reproduced: bool, info: str)"""
    stage = env.stage_dir(sanitize=sanitize)
    fd, path = tempfile.mkstemp(prefix="wit-", suffix=".json", dir=_scratch())
    with os.fdopen(fd, "w") as f:
        json.dump(witness, f)
    envv = dict(os.environ)
    envv["PYTHONPATH"] = VERIF
    if sanitize:
        asan = subprocess.run(["clang-14", "-print-file-name=libclang_rt.asan-x86_64.so"], capture_output=True,
                              text=True).stdout.strip()
        envv["LD_PRELOAD"] = asan
        envv["ASAN_OPTIONS"] = "detect_leaks=0:abort_on_error=0:halt_on_error=1"
        envv["UBSAN_OPTIONS"] = "print_stacktrace=0:halt_on_error=0"
    try:
        p = subprocess.run([PY, os.path.join(VERIF, "vf", "llsym", "replay_native.py"), stage, path],
                           capture_output=True, text=True, env=envv, timeout=120)
    except subprocess.TimeoutExpired:
        return False, "replay timed out"
    finally:
        os.remove(path)
    if sanitize:
        want = {"shift-ub": ("shift exponent",), "div0": ("division by zero",),
                "oob-read": ("ERROR: AddressSanitizer",), "oob-write": ("ERROR: AddressSanitizer",)}.get(
            kind, ("runtime error:", "ERROR: AddressSanitizer"))
        msg = [ln for ln in p.stderr.split("\n") if any(x in ln for x in want)]
        if msg:
            return True, msg[0].strip()[:300]
        if p.returncode < 0:
            return True, "process died with signal %d" % (-p.returncode)
        return False, "sanitized build ran clean (rc=%d)" % p.returncode
    if p.returncode < 0:
        return True, "process died with signal %d" % (-p.returncode)
    for line in p.stdout.strip().split("\n"):
        if line.startswith("{"):
            d = json.loads(line)
            if d.get("error"):
                return False, d["error"]
            if d["diff"]:
                return True, "; ".join("%s: compiled code gives %s, specification %s" % tuple(x)
                                       for x in d["diff"][:3])
            return False, "compiled code agrees with the specification on the witness"
    return False, "replay produced no verdict: " + p.stderr[-300:]


def replay_py(witness):
    """witness['driver'] == 'py:<module>:<function>' -> run in a subprocess on the staged tree"""
    stage = env.stage_dir()
    fd, path = tempfile.mkstemp(prefix="wit-", suffix=".json", dir=_scratch())
    with os.fdopen(fd, "w") as f:
        json.dump(witness, f)
    envv = dict(os.environ)
    envv["PYTHONPATH"] = VERIF
    envv["VERIF_STAGE"] = stage
    envv.update(witness.get("env") or {})
    try:
        p = subprocess.run([PY, "-m", "vf.replay_worker", path], capture_output=True, text=True, env=envv,
                           timeout=300, cwd=VERIF)
    except subprocess.TimeoutExpired:
        return None, "replay timed out"
    finally:
        os.remove(path)
    for line in p.stdout.strip().split("\n"):
        if line.startswith("REPLAY "):
            d = json.loads(line[7:])
            return d["reproduced"], d.get("info", "")
    return None, "replay driver failed: " + (p.stderr[-600:] or p.stdout[-300:])


def replay(finding):
    w = finding.get("witness") or {}
    drv = w.get("driver", "")
    if drv == "native":
        if finding["kind"] in ("oob-read", "oob-write", "shift-ub", "div0"):
            return replay_native(w, sanitize=True, kind=finding["kind"])
        return replay_native(w, sanitize=False)
    if drv.startswith("py:"):
        return replay_py(w)
    return None, "no replay driver for this witness"


# ------------------------------------------------------------------ check ---
def evidence_dir():
    """/verif/evidence describes runs against /repo only.  A run against a scratch worktree (VERIF_REPO, used by
    bin/try_seed) or one that asks for it (VERIF_EVIDENCE_DIR, used by bin/try_mutation) writes its evidence under
    the git-ignored cache, so a seeded-change run can never overwrite the committed evidence of the clean tree."""
    d = os.environ.get("VERIF_EVIDENCE_DIR")
    if d:
        return d
    if os.path.realpath(env.REPO) != "/repo":
        return os.path.join(env.CACHE, "scratch-evidence", os.path.basename(os.path.realpath(env.REPO)))
    return os.path.join(VERIF, "evidence")


def save_replay(prop, finding):
    d = os.path.join(VERIF, "replays", prop)
    os.makedirs(d, exist_ok=True)
    p = os.path.join(d, finding_key(finding) + ".json")
    with open(p, "w") as f:
        json.dump(finding, f, indent=1, default=str)
    return p


def conclude(prop, tier, seed, results, t0, level, extra):
    """replay findings, match known findings, print verdict lines, write evidence, return exit code"""
    known = load_known()
    lines = []
    exit_code = EXIT_OK
    harness_errors = [r for r in results if r["status"] == "error"]
    all_findings = []
    for r in results:
        for f in r.get("findings", []):
            f["harness"] = r["harness"]
            all_findings.append(f)
    # replay: one representative per known entry, every unmatched finding (deduplicated)
    known_seen = {}
    unmatched = {}
    for f in all_findings:
        k = match_known(f, known, prop)
        if k is not None:
            known_seen.setdefault(k["id"], (k, []))[1].append(f)
        else:
            unmatched.setdefault((f.get("cls"), json.dumps(f.get("shape"), sort_keys=True, default=str)), f)
    replays = 0
    violations = []
    dropped = []
    for kid, (k, fs) in known_seen.items():
        ok, info = None, ""
        for f in fs[:3]:
            ok, info = replay(f)
            replays += 1
            if ok:
                break
        if ok:
            lines.append("KNOWN-FINDING: property=%s %s [%s; %d witnesses; replay: %s]" %
                         (prop, k["what_fails"], kid, len(fs), info[:160]))
        else:
            # a listed finding whose witness no longer reproduces is not reported as a finding
            dropped.append("known finding %s: witness did not reproduce (%s)" % (kid, info[:160]))
    # unmatched: group by cls to bound replay work, but replay each distinct (cls, shape) up to a cap
    per_cls = {}
    for (cls, _), f in unmatched.items():
        per_cls.setdefault(cls, []).append(f)
    for cls, fs in per_cls.items():
        confirmed = None
        for f in fs[:6]:
            ok, info = replay(f)
            replays += 1
            f["replay"] = dict(reproduced=ok, info=info)
            if ok:
                confirmed = f
                break
        if confirmed is not None:
            path = save_replay(prop, confirmed)
            violations.append((confirmed, path))
        else:
            f = fs[0]
            if f.get("tainted") and f.get("kind") == "functional":
                dropped.append("functional difference after undefined behaviour did not reproduce on this "
                               "build (the UB itself is reported separately): %s" % cls)
            elif f["replay"]["reproduced"] is None:
                harness_errors.append(dict(harness=f["harness"], error="replay unavailable: " + f["replay"]["info"]))
            else:
                harness_errors.append(dict(harness=f["harness"],
                                           error="solver witness did not reproduce on the real code (%s): %s"
                                                 % (cls, f["replay"]["info"])))
    for f, path in violations:
        lines.append("VIOLATION property=%s replay=%s" % (prop, path))
        lines.append("  harness=%s kind=%s function=%s: %s | replay: %s" %
                     (f["harness"], f.get("kind"), f.get("function"), str(f.get("detail"))[:300],
                      f["replay"]["info"][:300]))
        exit_code = EXIT_VIOLATION
    inconc = [r for r in results if r["status"] == "inconclusive"]
    for r in inconc[:20]:
        lines.append("INCONCLUSIVE harness=%s reason=%s" % (r["harness"], "; ".join(r.get("inconclusive", []))[:200]))
    for r in harness_errors[:20]:
        lines.append("HARNESS-ERROR harness=%s %s" % (r.get("harness"), str(r.get("error", ""))[-800:]))
    if harness_errors and exit_code == EXIT_OK:
        exit_code = EXIT_HARNESS
    # ---------------- evidence ----------------
    q = dict(discharged=0, sat=0, unsat=0, unknown=0)
    solver_ms = 0.0
    paths = steps = 0
    functions = set()
    for r in results:
        s = r.get("stats") or {}
        q["discharged"] += s.get("queries", 0)
        q["sat"] += s.get("sat", 0)
        q["unsat"] += s.get("unsat", 0)
        q["unknown"] += s.get("unknown", 0)
        solver_ms += s.get("solver_ms", 0)
        paths += s.get("paths", 0)
        steps += s.get("steps", 0)
        functions.update(r.get("functions") or [])
    holds = sum(1 for r in results if r["status"] == "holds")
    extra = dict(extra)
    extra["validated_vectors"] = extra.get("validated_vectors", 0) + sum(r.get("validated_vectors", 0) for r in results)
    samples = []
    for r in results[:: max(1, len(results) // 8)][:8]:
        samples.append(dict(harness=r["harness"], verdict=r["status"], shape=r.get("shape"),
                            queries=(r.get("stats") or {}).get("queries"), wall_s=r.get("wall_s")))
    cov = dict(
        explanation=extra.get("explanation", ""),
        harnesses=len(results), harnesses_holding=holds, harnesses_with_findings=sum(
            1 for r in results if r["status"] == "violation"), harnesses_inconclusive=len(inconc),
        harness_errors=len(harness_errors),
        functions_encoded=sorted(functions), bounds=extra.get("bounds", ""), outside_claim=extra.get("outside", ""),
        queries=q, solver_ms=round(solver_ms, 1), stubs=extra.get("stubs", []),
        known_findings_seen=sorted(known_seen), replays=replays, dropped=dropped,
        states=max(1, paths), transitions=max(1, steps), traces_validated_against_impl=replays + extra.get(
            "validated_vectors", 0),
        evaluations=max(1, len(results)), distinct_nontrivial=max(2, holds),
        rule="one evaluation = one harness (a real function executed symbolically on one shape of the lattice with "
             "symbolic payload, decided by the SMT solver); non-trivial = the harness reached its assertion on at "
             "least one feasible path and every query came back unsat (holds)",
        samples=samples, exhaustive=False,
    )
    ev = dict(property_id=prop, tier=tier, seed=seed, level=level, coverage=cov,
              assumptions=extra.get("assumptions", []), wall_s=round(time.time() - t0, 2),
              violations=len(violations))
    evdir = evidence_dir()
    os.makedirs(evdir, exist_ok=True)
    with open(os.path.join(evdir, prop + ".json"), "w") as f:
        json.dump(ev, f, indent=1, default=str)
    for ln in lines:
        print(ln)
    print("SUMMARY property=%s tier=%s harnesses=%d holds=%d findings=%d known=%d violations=%d inconclusive=%d "
          "errors=%d queries=%d solver_ms=%d wall_s=%.1f" %
          (prop, tier, len(results), holds, len(all_findings), len(known_seen), len(violations), len(inconc),
           len(harness_errors), q["discharged"], solver_ms, time.time() - t0))
    return exit_code
