"""Build stage: everything a check needs is regenerated from /repo's working tree.

* stage_dir(): a scratch package directory <cache>/stage-<key>/fastparquet with
  copies of the current *.py / *.pyx / *.thrift and extension modules compiled
  from the *current* cencoding.c / speedups.c (gcc, the interpreter's CFLAGS).
  Keyed by the content hash of all inputs, so an edited tree gets a new stage
  and an unchanged tree reuses it.  Lives under /verif/.cache (never /tmp).
* ir_path(mod): LLVM IR (clang-14 -O0 + mem2reg, same -fno-strict-overflow) of
  the current .c.
* asan_dir(): the same package with ASan+UBSan-instrumented extension modules
  (used only to confirm solver-produced out-of-bounds / shift witnesses).
"""
import fcntl
import hashlib
import os
import shutil
import subprocess
import sys
import sysconfig

REPO = os.environ.get("VERIF_REPO", "/repo")
VERIF = os.path.dirname(os.path.dirname(os.path.abspath(__file__)))
CACHE = os.path.join(VERIF, ".cache")
PKG = os.path.join(REPO, "fastparquet")
MODS = ("cencoding", "speedups")


def _sha(paths, extra=""):
    h = hashlib.sha256(extra.encode())
    for p in sorted(paths):
        h.update(p.encode())
        with open(p, "rb") as f:
            h.update(f.read())
    return h.hexdigest()[:20]


def _includes():
    import numpy
    return ["-I" + sysconfig.get_paths()["include"], "-I" + numpy.get_include()]


def _py_cflags():
    fl = (sysconfig.get_config_var("CFLAGS") or "").split()
    keep = [f for f in fl if f.startswith("-f") or f.startswith("-D")]
    return keep


class Lock:
    def __init__(self, name):
        os.makedirs(CACHE, exist_ok=True)
        self.path = os.path.join(CACHE, name + ".lock")

    def __enter__(self):
        self.f = open(self.path, "w")
        fcntl.flock(self.f, fcntl.LOCK_EX)

    def __exit__(self, *a):
        fcntl.flock(self.f, fcntl.LOCK_UN)
        self.f.close()


def source_files():
    out = []
    for root, dirs, files in os.walk(PKG):
        dirs[:] = sorted(d for d in dirs if d not in ("test", "benchmarks", "__pycache__"))
        for fn in sorted(files):
            if fn.endswith((".py", ".pyx", ".thrift")):
                out.append(os.path.join(root, fn))
    return out


def c_path(mod):
    p = os.path.join(PKG, mod + ".c")
    if not os.path.exists(p):
        raise RuntimeError("missing generated C file %s (Cython is not available to regenerate it)" % p)
    return p


def _compile_so(mod, outdir, sanitize=False):
    suffix = sysconfig.get_config_var("EXT_SUFFIX")
    out = os.path.join(outdir, mod + suffix)
    if sanitize:
        cmd = ["clang-14", "-shared", "-fPIC", "-O1", "-g", "-fno-omit-frame-pointer",
               "-fsanitize=address,undefined", "-fno-sanitize-recover=undefined",
               "-fno-sanitize=alignment,function,vptr,signed-integer-overflow,pointer-overflow",
               "-w"] + _py_cflags() + _includes() + [c_path(mod), "-o", out]
    else:
        cmd = ["gcc", "-shared", "-fPIC", "-O2", "-w"] + _py_cflags() + _includes() + [c_path(mod), "-o", out]
    r = subprocess.run(cmd, capture_output=True, text=True)
    if r.returncode != 0:
        raise RuntimeError("compilation of %s failed:\n%s" % (mod, r.stderr[-3000:]))
    return out


def _so_dir(sanitize=False):
    """compiled extension modules for the current .c files (cached by hash)"""
    key = _sha([c_path(m) for m in MODS], extra=("asan" if sanitize else "plain") + " ".join(_py_cflags()))
    d = os.path.join(CACHE, ("asan-" if sanitize else "so-") + key)
    with Lock("so-" + key + ("a" if sanitize else "")):
        if not os.path.exists(os.path.join(d, "ok")):
            shutil.rmtree(d, ignore_errors=True)
            os.makedirs(d)
            import concurrent.futures as cf
            with cf.ThreadPoolExecutor(2) as ex:
                list(ex.map(lambda m: _compile_so(m, d, sanitize), MODS))
            open(os.path.join(d, "ok"), "w").close()
    return d


def stage_dir(sanitize=False):
    """package dir (to be put first on sys.path) reflecting /repo's working tree"""
    srcs = source_files()
    sod = _so_dir(sanitize)
    key = _sha(srcs, extra=sod)
    d = os.path.join(CACHE, "stage-" + key)
    with Lock("stage-" + key):
        if not os.path.exists(os.path.join(d, "ok")):
            shutil.rmtree(d, ignore_errors=True)
            pk = os.path.join(d, "fastparquet")
            os.makedirs(pk)
            for s in srcs:
                rel = os.path.relpath(s, PKG)
                os.makedirs(os.path.dirname(os.path.join(pk, rel)), exist_ok=True)
                shutil.copy2(s, os.path.join(pk, rel))
            for fn in os.listdir(sod):
                if fn.endswith(".so"):
                    shutil.copy2(os.path.join(sod, fn), os.path.join(pk, fn))
            # version file may be absent from git; keep import working
            if not os.path.exists(os.path.join(pk, "_version.py")):
                with open(os.path.join(pk, "_version.py"), "w") as f:
                    f.write("__version__ = version = '0+verif'\n")
            open(os.path.join(d, "ok"), "w").close()
    return d


def ir_path(mod):
    key = _sha([c_path(mod)], extra="ir" + " ".join(_py_cflags()))
    d = os.path.join(CACHE, "ir-" + key)
    out = os.path.join(d, mod + ".ll")
    with Lock("ir-" + key):
        if not os.path.exists(out):
            shutil.rmtree(d, ignore_errors=True)
            os.makedirs(d)
            raw = os.path.join(d, mod + ".raw.ll")
            cmd = ["clang-14"] + _py_cflags() + ["-O0", "-Xclang", "-disable-O0-optnone", "-w", "-S",
                                                 "-emit-llvm"] + _includes() + [c_path(mod), "-o", raw]
            r = subprocess.run(cmd, capture_output=True, text=True)
            if r.returncode != 0:
                raise RuntimeError("clang failed on %s:\n%s" % (mod, r.stderr[-3000:]))
            r = subprocess.run(["opt-14", "-mem2reg", "-S", raw, "-o", out + ".tmp"], capture_output=True, text=True)
            if r.returncode != 0:
                raise RuntimeError("opt failed: " + r.stderr[-2000:])
            os.remove(raw)
            os.rename(out + ".tmp", out)
    return out


def gc_cache(keep_newest=6):
    """drop old cache entries (disk is limited)"""
    if not os.path.isdir(CACHE):
        return
    ents = []
    for fn in os.listdir(CACHE):
        p = os.path.join(CACHE, fn)
        if os.path.isdir(p) and fn.split("-")[0] in ("stage", "so", "asan", "ir"):
            ents.append((os.path.getmtime(p), fn.split("-")[0], p))
    ents.sort(reverse=True)
    seen = {}
    import time
    now = time.time()
    for mt, kind, p in ents:
        seen[kind] = seen.get(kind, 0) + 1
        # entries younger than two hours may belong to a check that is running right now (several checks, or checks
        # against several trees, can run side by side)
        if seen[kind] > keep_newest and now - mt > 7200:
            shutil.rmtree(p, ignore_errors=True)


def activate(sanitize=False):
    """make `import fastparquet` resolve to the staged copy of the working tree"""
    d = stage_dir(sanitize)
    if d not in sys.path:
        sys.path.insert(0, d)
    for k in [k for k in sys.modules if k == "fastparquet" or k.startswith("fastparquet.")]:
        del sys.modules[k]
    return d


if __name__ == "__main__":
    print(stage_dir())
    for m in MODS:
        print(ir_path(m))
