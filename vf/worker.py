"""Subprocess entry: runs one job (see vf.core) and prints `RESULT <json list>`."""
import importlib
import json
import os
import sys
import traceback


def run_llsym(job):
    from vf import env
    from vf.llsym import kern, kernels
    from vf.llsym.interp import HarnessError
    from vf.llsym.ir import IRError
    modname = job.get("module", "cencoding")
    mod = kern.module(env.ir_path(modname), env.c_path(modname))
    reg = dict(kernels.REGISTRY)
    if job.get("registry"):
        reg.update(importlib.import_module(job["registry"]).REGISTRY)
    out = []
    for name, kw in job["payload"]:
        try:
            kw = dict(kw)
            kw.setdefault("seed", job.get("seed", 0))
            r = reg[name](mod, **kw)
        except (HarnessError, IRError, AssertionError, KeyError, IndexError, TypeError, ValueError) as ex:
            r = dict(harness="%s%r" % (name, kw), engine="E1-llsym", status="error", findings=[],
                     error="%s: %s\n%s" % (type(ex).__name__, ex, traceback.format_exc()[-1200:]), stats={})
        out.append(r)
    return out


def main():
    job = json.load(open(sys.argv[1]))
    kind = job["kind"]
    if kind == "llsym":
        res = run_llsym(job)
    elif kind == "crosshair":
        from vf.pyshim import runner
        res = runner.run_job(job)
    elif kind == "pyfunc":
        modname, fn = job["payload"]["func"].split(":")
        stage = os.environ.get("VERIF_STAGE")
        if stage and stage not in sys.path:
            sys.path.insert(0, stage)
        res = getattr(importlib.import_module(modname), fn)(**job["payload"].get("kwargs", {}))
        if isinstance(res, dict):
            res = [res]
    else:
        raise SystemExit("unknown job kind " + kind)
    print("RESULT " + json.dumps(res, default=str))


if __name__ == "__main__":
    main()
