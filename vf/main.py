"""bin/check <ID> --tier quick|thorough   |   bin/check <ID> --replay <path>"""
import argparse
import importlib
import json
import os
import sys
import time

from vf import core, env


def main():
    ap = argparse.ArgumentParser()
    ap.add_argument("prop")
    ap.add_argument("--tier", default=os.environ.get("VERIF_TIER", "quick"), choices=["quick", "thorough"])
    ap.add_argument("--replay")
    ap.add_argument("--nproc", type=int, default=int(os.environ.get("VERIF_NPROC", "16")))
    ap.add_argument("--only", help="substring filter on job names (debugging)")
    a = ap.parse_args()
    seed = int(os.environ.get("VERIF_SEED", "0") or 0)
    t0 = time.time()
    try:
        mod = importlib.import_module("vf.props." + a.prop)
    except ImportError as ex:
        print("HARNESS-ERROR no check for %s: %s" % (a.prop, ex))
        sys.exit(core.EXIT_HARNESS)
    if a.replay:
        f = json.load(open(a.replay))
        ok, info = core.replay(f)
        print("REPLAY property=%s reproduced=%s %s" % (a.prop, ok, info))
        if ok:
            print("VIOLATION property=%s replay=%s" % (a.prop, a.replay))
        sys.exit(core.EXIT_VIOLATION if ok else core.EXIT_OK)
    try:
        env.gc_cache()
        env.stage_dir()
        jobs, extra = mod.plan(a.tier, seed)
        if a.only:
            jobs = [j for j in jobs if a.only in j["name"]]
        for j in jobs:
            j.setdefault("seed", seed)
        results = core.run_jobs(jobs, nproc=a.nproc)
        if hasattr(mod, "post"):
            results = mod.post(results, a.tier, seed)
        code = core.conclude(a.prop, a.tier, seed, results, t0, mod.LEVEL, extra)
    except Exception as ex:   # environment / build failure: harness error, never a verdict
        import traceback
        traceback.print_exc()
        print("HARNESS-ERROR property=%s %s: %s" % (a.prop, type(ex).__name__, ex))
        code = core.EXIT_HARNESS
    sys.exit(code)


if __name__ == "__main__":
    main()
