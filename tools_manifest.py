#!/usr/bin/env python3
"""Regenerates MANIFEST.json from the table below (kept in one place so it stays valid)."""
import json
import os

HERE = os.path.dirname(os.path.abspath(__file__))
BASE = json.load(open("/root/.vp/BASELINE.json"))["cmd"] if os.path.exists("/root/.vp/BASELINE.json") else \
    "cd /repo && /venv/bin/python -m pytest -ra -q -p no:cacheprovider --timeout=900 --continue-on-collection-errors"

E1 = "E1-llsym"
CHECKS = {
    "C03": dict(engine=E1, cat="model_checking", design="DESIGN.md §4 C03",
                technique="bounded symbolic execution of the generated C's LLVM IR + z3 (bit-vectors) vs specification decoders; witnesses replayed on the compiled module",
                text="Decoders (hybrid RLE/bit-pack, bit-packed, RLE, varint, delta-binary-packed) executed symbolically from the LLVM IR of the generated C with the argument patterns of their call sites; z3 shows output == specification for every payload of each enumerated stream shape, or returns a payload that is replayed on the compiled module. Bounded: shapes enumerated, payload symbolic (delta: first value and min-delta varints of 1, 5 and 10 bytes). On top: the real core.read_col page loop for a flat column (CrossHair; several pages, OPTIONAL/REQUIRED, dictionary/plain), the call-site patterns of read_data_page (v1) and a z3 lemma lifted from the AST of every delta_binary_unpack call site (v1 and v2) deciding the 32/64-bit choice. Also: the definition-level shortcut (real read_col -> read_data_page -> read_def / skip_definition_bytes with the level-block length symbolic), the flat DATA_PAGE_V2 page loop, the BYTE_ARRAY decoder (speedups.pyx lifted) and the footer location arithmetic of _parse_header.",
                note="Reduced claim: the decoders, the flat page loop and the decoder call sites (not PLAIN/np.frombuffer value bytes, codecs, converted-type conversion, numpy fast paths of v2 pages). Trusts clang's IR, the stub list in the evidence file, and the specification functions written from Encodings.md."),
    "C11": dict(engine=E1, cat="model_checking", design="DESIGN.md §4 C11",
                technique="bounded symbolic execution of the generated C's LLVM IR + z3 (bit-vectors) vs specification; replay on the compiled module",
                text="Every primitive kernel of cencoding x every shape of a lattice (widths 0..32 / 0..64, counts, capacities 0..count+1, item sizes) is executed over symbolic payload and compared with a specification function by z3; encoder/decoder round trips included; full 64-bit range for varint/zigzag/width_from_max_int. Translator validated against the compiled module on the repo's test vectors and seeded vectors. The BYTE_ARRAY codec of speedups.pyx (pack/unpack_byte_array) is lifted from the .pyx each run (E3, drift-guarded against speedups.c) and compared with the PLAIN BYTE_ARRAY specification over symbolic item lengths, bytes and padding.",
                note="Bounded by the shape lattice printed in the evidence; payload is unconstrained. Trusts clang-14 IR generation, the Python-object stubs listed in the evidence, and the spec functions."),
    "C12": dict(engine=E1, cat="model_checking", design="DESIGN.md §4 C12",
                technique="bounded symbolic execution of the LLVM IR with in-bounds / shift-width / divisor obligations decided by z3; witnesses confirmed under ASan+UBSan",
                text="The same executions as C11/C03 with only the safety obligations asserted: every load/store/memcpy inside its region, shift amount < width, divisor != 0, for all payloads of each well-formed shape. The sanitizer build is used only to confirm solver witnesses.",
                note="Leaf kernels and NumpyIO methods, plus the pointer arithmetic of speedups.pack/unpack_byte_array on the lifted .pyx (every dereference carries the bounds obligation); Cython runtime, numpy and the CPython object API are outside. Pointer formation without dereference is not asserted."),
}
E2 = "E2-pyshim"
CHECKS["C05"] = dict(engine=E2, cat="other", design="DESIGN.md §4 C05",
    technique="CrossHair (z3) symbolic execution of the real api.filter_* functions with contract shims; counterexamples replayed through ParquetFile.to_pandas(filters=...)",
    text="The real filter_val / filter_in / filter_not_in / filter_out_stats / filter_out_cats / filter_row_groups are executed symbolically: chunk bounds (possibly absent), null counts, constants, operator, and a witness row are symbolic integers (and short strings); the postcondition 'a row satisfying the predicate is never pruned, order preserved' is confirmed over all paths or refuted with a counterexample that is replayed on a real file. Also: the real text -> number typing of partition labels (labels beyond 2**53), several conditions on one partition column, and refusal of unknown filter columns in any OR group.",
    note="Bounded by harness shapes (<=2 clauses per AND group, <=2 OR groups, in-lists <=3, strings <=2 chars); statistics decoding and partition-text typing are stubbed to identity; float/NaN/datetime bounds outside.")
CHECKS["C06"] = dict(engine=E2, cat="other", design="DESIGN.md §4 C06",
    technique="CrossHair (z3) symbolic execution of the real to_pandas/head/count on a shim handle + z3 LIA lemma lifted from pre_allocate's AST",
    text="Placement arithmetic of full and partial reads: the real to_pandas / head / count run symbolically with row-group sizes in [0, 2^31); postconditions: placements tile the allocation in order, head(n) reads a prefix holding min(n,total) rows, count() = sum, iter_row_groups yields one frame per non-empty group in order, a caller-supplied file object stays open and reusable, a handle read twice gives the same placements. The RangeIndex reconstruction expression is extracted from the source and decided in LIA. Also: what a sliced handle inherits (time zones, column-index dtype) and what it must recompute (statistics), and that the caller's columns list is not modified across reads with different index choices.",
    note="Reduced claim: offsets, counts and range-index arithmetic only; column/index selection and pickling are pandas glue outside the encoding. Shim handle records what pre_allocate/read_row_group_file are given.")
CHECKS["C13"] = dict(engine=E2, cat="other", design="DESIGN.md §4 C13",
    technique="CrossHair (z3) symbolic execution of the real _column_filter / to_pandas mask branch on vector shims; counterexamples replayed through to_pandas(row_filter=True)",
    text="Predicate evaluation (real _column_filter; row values, constants, operators symbolic) is compared with the documented semantics, and the two-pass masked placement of the real to_pandas is checked for every mask over small row-group shapes. Counterexamples are replayed on real files. Also: count(filters, row_filter=True) through the real count / iter_row_groups / _column_filter for four filter programs (pandas' `empty` contract for column-less frames).",
    note="Bounded: <=2 rows x 2 columns, <=2 clauses x <=2 groups, masks over <=4 row groups of <=4 rows; partition clauses in either position of an AND group and as OR groups. numpy/pandas replaced by vector shims with the documented elementwise contracts. Mask application inside the page loop is checked on the real core.read_col for a flat column of <=3 pages (v1 pages; v2 pages with a mask are outside).")
CHECKS["C16"] = dict(engine=E2, cat="other", design="DESIGN.md §4 C16",
    technique="CrossHair (z3) symbolic execution of the real update_file_custom_metadata on a symbolic file and of update_custom_metadata on real KeyValue objects; replay on real files",
    text="In-place footer rewrite for every data length and every old/new footer length (so every footer delta): nothing before the footer is written and the file is exactly data ++ footer ++ len32 ++ PAR1; merge rules compared with the dict-update-with-None-deletes model over str/bytes/non-ASCII key spellings; write-time values decode back verbatim. Also: what ParquetFile.key_value_metadata reports for arbitrary byte strings (keys and values decoded independently), and that every update leaves a footer the real write_thrift accepts.",
    note="File is a SymFile shim (length + write log); thrift (de)serialisation stubbed to segments of symbolic length (its content is C10). Merge rules over a 4x4 key/value alphabet, <=2 existing entries, <=2 updates.")
E3 = "E3-pyxlift"
CHECKS["C15"] = dict(engine=E3, cat="other", design="DESIGN.md §4 C15",
    technique="CrossHair (z3) symbolic execution of _assemble_objects lifted from cencoding.pyx (drift-guarded against the generated C) vs a Dremel reference; counterexamples replayed on the compiled function",
    text="Record assembly for 3-level LIST columns: the real _assemble_objects (lifted from the .pyx each run) is executed page by page over all valid definition/repetition level streams of the bounded length and every page split position, for optional/required list x optional/required element, and must equal standard record assembly. The same oracle is applied through the real core.read_col for v1 pages (PLAIN, and a dictionary page followed by dictionary-encoded / PLAIN data pages) and through the real core.read_data_page_v2 for up to three DATA_PAGE_V2 pages (row offset carried across pages, level reads, schema-derived nullability).",
    note="Bounded: streams of 3 (thorough 4) level entries, 1-2 page splits. Trusts the mechanical lift (types stripped, integer wrap, index obligations) - tied to the compiled code by the quoted-line drift guard and by replaying every counterexample on the compiled function. The real core.read_col + SchemaHelper drive the assembler for LIST columns (null flag, max levels from the schema path). MAP zipping and dictionary dereference (numpy) outside.")
CHECKS["C10"] = dict(engine="E3-pyxlift+E1-llsym", cat="other", design="DESIGN.md §4 C10",
    technique="CrossHair (z3) over to_bytes/write_thrift/write_list lifted from cencoding.pyx with bounds obligations (lengths symbolic) + LLVM-IR/z3 check of the varint/zigzag kernels; witnesses confirmed under ASan",
    text="Size safety: for every combination of string/bytes lengths (0..8 MB) in a FileMetaData / Statistics structure, each unchecked memcpy of the serialiser stays inside the buffer chosen by the sizing heuristic and no checked write is dropped - or the solver returns lengths that are replayed on an ASan build. Integers: ULEB128/zigzag encode and decode agree with the specification over the full 64-bit range. Structures: write_thrift/read_thrift (lifted) emit exactly the IDL-conformant token stream of the reference codec and read it back to an equal object, including metadata produced by another writer that is re-serialised.",
    note="T1 integer codec (E1), T2 structure round trip and re-serialisation of foreign metadata against a reference compact codec generated from parquet.thrift each run (token streams; every struct of the IDL that fastparquet writes, integer profiles instead of free integers, lists <= 2), T4 capacity plus the buffer premise as a non-linear integer lemma lifted from to_bytes. The lift is tied to the compiled code by the quoted-line drift guard and by replay.")
CHECKS["C01"] = dict(engine=E2, cat="other", design="DESIGN.md §4 C01",
    technique="CrossHair (z3) over the real iter_dataframe / write_column / make_definitions / skip_definition_bytes with shims; z3 bit-vector and LIA lemmas lifted from function ASTs; LLVM-IR/z3 decode of writer-shaped level streams",
    text="Reduced claim: the framing arithmetic on which the round trip depends - row-group and page tiling, level-block length agreement between writer and the reader's skip for every row count < 2^31, null-mask decode for the writer's shapes, dictionary-index header vs reader fast path, range-index regeneration, and the logical-type <-> physical-type tables of writer and reader being mutually inverse (lemma over the real tables) - each decided for all values within its bound. Since rounds 4-6 also: the BYTE_ARRAY codec round trip (speedups.pyx lifted), the definition-level shortcut of the v1 reader against the real level-block length, the level framing of pages with NULLs, the flat DATA_PAGE_V2 page loop (real read_data_page_v2: PLAIN / dictionary / delta, nullable outputs, several pages), timestamp encodings (INT96 day/nanosecond split, unit factors, timedelta microseconds) as z3 lemmas lifted from writer.convert / converted_types.convert / writer.time_shift, and the forwarding of write()'s options to the functions that do the work.",
    note="Value conversion through numpy/pandas, codecs, dtype restoration and block-manager aliasing are not encodable and are outside the claim (stated in DESIGN.md); the three interaction failures named in the property live there.")
CHECKS["C02"] = dict(engine=E2, cat="other", design="DESIGN.md §4 C02",
    technique="CrossHair (z3) symbolic execution of the real write_column / write_simple / write_multi over symbolic lengths with a linear-arithmetic oracle on the write log; witnesses replayed by writing a real file and validating it structurally",
    text="Chunk/page/file bookkeeping: for every row count, page split, null layout and every level/value/compressed/header length the recorded offsets, sizes and counts describe exactly the bytes written (pages tile the chunk; sums match), for a lattice of page version x categorical x codec x nullability x page count; file framing and summary layout likewise. Also: wire conformance of every metadata structure the writer emits (lifted serialiser vs a reference compact codec generated from parquet.thrift, incl. list-header boundaries) and the v1 level-block length prefix for pages with NULLs.",
    note="Reduced claim: bookkeeping and framing; the bytes inside segments (values, codec output, thrift) and decoding by an independent reader are outside. Collaborators that end in C are contract shims listed in the evidence; write_column carries one declared AST rewrite.")
CHECKS["C04"] = dict(engine=E2, cat="other", design="DESIGN.md §4 C04",
    technique="CrossHair (z3) over the statistics section of the real write_column with a categorical shim implementing the pandas ordering contract; replay through ParquetFile.statistics",
    text="Categorical min/max over symbolic category order and presence must equal the smallest/largest present value; null_count equals the per-page tally for every null layout; plain columns pass min/max through; which columns get statistics (stats=True/False/list/auto) and the sorted-columns derivation from chunk bounds (real api.sorted_partitioned_columns / statistics selection) agree with the documented rule. Also: statistics of BYTE_ARRAY and BOOLEAN columns through the real encode/slice expressions (symbolic value lengths), the real api.statistics over symbolic Statistics fields (empty bounds, legacy vs *_value fields), and statistics of sliced handles.",
    note="Reduced claim: fastparquet-side logic only; pandas min/max semantics (NaN, unsigned, tz, unicode) and decoding in api.statistics are outside.")
CHECKS["C07"] = dict(engine=E2, cat="other", design="DESIGN.md §4 C07",
    technique="CrossHair (z3) over the real write_simple append branch and write_row_groups/write_multi on symbolic files / filesystem",
    text="Append positions and order: every write of a single-file append starts at or after the old footer, row groups = old ++ new, the file ends with the new frame; a multi-file append opens no existing data file for writing, uses fresh part names (existing ids with gaps and several digits), writes parts before the summary, references old ++ new in order and gives every part file a footer describing exactly its own rows. Also: the layout (hive / drill) of part files appended through write_row_groups, part ids in any order, and the forwarding of write(append=True)'s options (calls bound to the real signatures).",
    note="Reduced claim: positions/order/names. Categorical relabelling on read and schema checks are pandas/numpy glue outside. Assumes the re-serialised footer does not shrink on append.")
CHECKS["C18"] = dict(engine=E2, cat="other", design="DESIGN.md §4 C18",
    technique="CrossHair (z3) over the real write paths with a rejection injected at a symbolic (row group, byte) position; replay on real files",
    text="If a late rejection occurs at any row-group position after any number of bytes, the call raises and the pre-existing bytes are untouched (or restored). Also: the up-front refusals of write(append=True) (scheme / partition mismatch before any write) and refusal of unknown filter columns.",
    note="Reduced claim: failure position, plus the up-front column check of append reached through the real write_row_groups -> write_simple -> make_row_group; which values trigger an encoding rejection is concrete pandas behaviour outside. Single-file append rejected mid-way is a recorded known finding.")
CHECKS["C19"] = dict(engine=E2, cat="other", design="DESIGN.md §4 C19",
    technique="CrossHair (z3) over the real multi-file append path on a symbolic filesystem with the failing call index symbolic; replay with fault-injecting open_with/mkdirs on real files",
    text="For every index k of a failing filesystem call before the metadata phase the append raises and no pre-existing file was opened for writing; fault-free, parts precede the summary and names are fresh; a normal return implies the fault was not reached.",
    note="Each feasible k is one path (stated in the evidence). Crash semantics of OS buffers are outside.")
CHECKS["C08"] = dict(engine=E2, cat="other", design="DESIGN.md §4 C08",
    technique="CrossHair (z3) over the real partition_on_columns/path_string/join_path and paths_to_cats/val_to_num/read_row_group partition lines with symbolic key values; replay by writing and reading a real hive/drill dataset",
    text="Path text <-> key value: for all string keys up to the bound (every character except '/' and '=') and integer/bool keys of every digit count, distinct keys give distinct directories and each written path reads back exactly its key, of the same kind, under the original name (hive) or as directory text (drill). Also: two partition levels with overlapping label texts and suffix-related column names (directory-set order symbolic), labels that look like escapes / numbers / dates / keywords, and appends that must keep the dataset's layout.",
    note="Reduced claim: text kinds (str/int/bool) plus the timestamp key text produced by path_string (Timestamp.isoformat contract shim: second/milli/micro/nanosecond resolution must survive); float keys and the pandas groupby are outside. numpy's dtype(t).type is a contract stub; partition_on_columns carries one declared AST rewrite.")
CHECKS["C14"] = dict(engine=E2, cat="other", design="DESIGN.md §4 C14",
    technique="CrossHair (z3) over the real metadata_from_many (both branches) and analyse_paths with symbolic row counts, footer lengths and path components",
    text="Metadata assembly for lists of files: order of row groups (file order, then intra-file), relative paths that rebuild the originals under the common base path, total row count, complete footer fetch for any footer length, schema verification. Also: the real ParquetFile.__init__ directory branch on a filesystem shim (root pinned to the opened directory), _parse_header, five kinds of schema difference with and without a filesystem object (real compiled dict_eq), partition levels with overlapping labels.",
    note="Reduced claim: metadata assembly only (the fetch order of fs.cat is arbitrary - the shim returns sorted order while the file list order is symbolic); directory listing, partition typing (C08) and categorical labels across files are outside. ParquetFile / fs.cat are shims.")
CHECKS["C09"] = dict(engine=E2, cat="other", design="DESIGN.md §4 C09",
    technique="CrossHair (z3): one inductive step of the real remove_row_groups / _sort_part_names / write_row_groups from a symbolic dataset state satisfying the invariant",
    text="From any dataset state within the bound that satisfies the invariant (referenced files == files on disk, no duplicates, num_rows = sum) one removal, renumbering or append of the real code re-establishes the invariant and yields the model's row-group list. Also: the text append='overwrite' compares (expression taken from writer.overwrite's source) against util.path_string for float / int / bool / text / timestamp keys, and part numbering in any order.",
    note="Lowest-priority, reduced claim: no histories (one step from an arbitrary valid state), <=3 row groups. append='overwrite' is one step of the real writer.overwrite on a shim dataset (partition values <= 3, which partitions are replaced and which stay). Renumbering with part numbers shared between directories is a recorded known finding.")
CHECKS["C17"] = dict(engine=E2, cat="other", design="DESIGN.md §4 C17",
    technique="CrossHair (z3) symbolic execution of the real ParquetFile._dtypes / pre_allocate / _get_index on a handle built from real schema and row-group thrift objects with symbolic row counts, NULL counts and statistics states; counterexamples replayed on spec-built files through ParquetFile.dtypes / to_pandas",
    text="Reduced claim - the prediction logic: for an integer column of any two row groups (rows, NULLs per row group, chunk statistics absent / without null_count / truthful all symbolic; after a float column and after a MAP column) the dtype predicted from metadata alone can hold every value a read then produces (nullable extension type or float64 whenever a row group that is read holds a NULL), the column list and order are the schema's, and the columns / index / categories handed to the allocator are exactly the predicted ones for every column selection.",
    note="What pandas allocates for a given dtype (dataframe.empty, block manager, time zones, extension arrays) is not encodable and stays outside: prediction is compared with the read only through replay on real files. Row counts are C06.")
CHECKS["C20"] = dict(engine=E2, cat="other", design="DESIGN.md §4 C20",
    technique="CrossHair (z3) over a scheduler that interleaves the real schema_tree / flatten / SchemaHelper.__init__ with the real SchemaHelper lookups, re-compiled with a yield after every statement; the schedule is symbolic; witnesses replayed with real threads at a minimal switch interval",
    text="Reduced claim - slicing vs reading: for three schema shapes and three lookup operations, for every placement of the reader's first 2 (thorough 3) statements among the statements of a concurrent derivation of a sliced handle (which runs SchemaHelper.__init__ on the schema elements it shares with its parent), the reader of the parent obtains exactly what it obtains alone and no exception. Statement-level interleavings of two threads; each feasible schedule is one path.",
    note="Only the shared schema tree is covered. Atomicity finer than a statement, more than two threads, the other shared state named by the property (statistics memoisation, lru/regex/json caches), pandas / numpy / the C extensions and concurrent part-file writing are outside; no engine here gives a semantics for interleaved bytecode, so this is the part of the property that can be decided by symbolic execution of the real code.")
NA = {
    "C20": "quantifies over CPython thread schedules of code running in pandas/numpy/C extensions; CrossHair executes one thread and no engine here gives a semantics for interleaved bytecode; a hand-written interleaving model would not be the real code",
}
PENDING = {}   # id -> reason while a check is not built yet


def main():
    props = [json.loads(l)["id"] for l in open(os.path.join(HERE, "properties.jsonl"))]
    checks = []
    for pid in props:
        c = CHECKS.get(pid)
        if not c:
            continue
        checks.append(dict(
            property_id=pid, quick_cmd="bin/check %s --tier quick" % pid,
            thorough_cmd="bin/check %s --tier thorough" % pid, evidence_file="evidence/%s.json" % pid,
            replay_cmd_template="bin/check %s --replay {path}" % pid, engine=c["engine"],
            level_claimed=dict(category=c["cat"], text=c["text"], design_ref=c["design"]),
            level_note=c["note"], technique=c["technique"]))
    na = []
    for pid in props:
        if pid in CHECKS:
            continue
        reason = NA.get(pid) or PENDING.get(pid) or "no solver-based check has been built for this property yet"
        na.append(dict(property_id=pid, reason=reason))
    m = dict(
        version=1, setup_cmd="bin/setup",
        hooks=dict(guard="FASTPARQUET_VERIF", enable="none needed: harnesses rebind module globals in their own "
                   "processes; no source hooks are committed in /repo", baseline_off_cmd=BASE, source_commits=[],
                   add_only=True),
        engines=[
            dict(name="E1-llsym", path="vf/llsym", serves_properties=[p for p in props if CHECKS.get(p, {}).get("engine", "").startswith("E1")],
                 kind_free_text="LLVM-IR (clang-14 -O0 + mem2reg of the generated C) -> z3 bit-vector symbolic interpreter with memory-safety obligations"),
            dict(name="E2-pyshim", path="vf/pyshim", serves_properties=[p for p in props if "E2" in CHECKS.get(p, {}).get("engine", "")],
                 kind_free_text="CrossHair symbolic execution of the real Python functions with contract shims for numpy/pandas/files"),
            dict(name="E3-pyxlift", path="vf/pyxlift", serves_properties=[p for p in props if "E3" in CHECKS.get(p, {}).get("engine", "")],
                 kind_free_text="object-level Cython functions lifted mechanically from cencoding.pyx to Python (with the bounds obligations the C omits) and run under CrossHair / z3"),
        ],
        checks=checks, not_applicable=na,
        notes="All checks: exit 0 = held on everything explored (KNOWN-FINDING lines allowed), exit 1 = VIOLATION line "
              "(witness replayed on the real code first), exit 2 = harness error. Known findings: known_findings.json.")
    with open(os.path.join(HERE, "MANIFEST.json"), "w") as f:
        json.dump(m, f, indent=1)
    print("checks:", [c["property_id"] for c in checks], "na:", [n["property_id"] for n in na])


if __name__ == "__main__":
    main()
